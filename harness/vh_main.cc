#include "squid.h"
#include "vh.h"

#include "debug/Stream.h"
#include "mem/forward.h"
#include "mem/Pool.h"
#include "SquidConfig.h"
#include "ConfigParser.h"
#include "time/gadgets.h"

#include <cstdio>
#include <cstdlib>
#include <fcntl.h>
#include <sys/mman.h>
#include <unistd.h>
#include <signal.h>

extern "C" void __ubsan_get_current_report_data(const char **kind, const char **msg, const char **file, unsigned *line, unsigned *col, char **addr);

namespace vh {

static long g_ubsanCount = 0;
static std::string g_ubsanLast;      // "<kind>:<file>:<line>"
static std::vector<std::string> g_ubsanAll;
static char *g_cur = nullptr;        // mmap'd "current case" cell for crash attribution
static const size_t CurSize = 1 << 20;

struct Entry { const char *prop; Driver d; const char *what; };
static std::vector<Entry> &registry() { static std::vector<Entry> r; return r; }
void Register(const char *prop, Driver d, const char *what) { registry().push_back({prop, d, what}); }

std::string hexEncode(const std::string &raw) {
    static const char *d = "0123456789abcdef";
    std::string r; r.reserve(raw.size() * 2);
    for (unsigned char c : raw) { r += d[c >> 4]; r += d[c & 15]; }
    return r;
}
std::string hexDecode(const std::string &hex) {
    std::string r;
    auto v = [](char c) { return c <= '9' ? c - '0' : (c | 32) - 'a' + 10; };
    for (size_t i = 0; i + 1 < hex.size(); i += 2) r += (char)(v(hex[i]) * 16 + v(hex[i + 1]));
    return r;
}
std::string jsonEscape(const std::string &raw) {
    std::string r;
    char b[8];
    for (unsigned char c : raw) {
        if (c == '"' || c == '\\') { r += '\\'; r += (char)c; }
        else if (c >= 0x20 && c < 0x7f) r += (char)c;
        else { snprintf(b, sizeof b, "\\u%04x", c); r += b; }
    }
    return r;
}
std::string show(const std::string &raw, size_t max) {
    std::string r;
    char b[8];
    for (unsigned char c : raw) {
        if (r.size() >= max) { r += "..."; break; }
        if (c == '\r') r += "\\r"; else if (c == '\n') r += "\\n"; else if (c == '\t') r += "\\t";
        else if (c == '\\') r += "\\\\";
        else if (c >= 0x20 && c < 0x7f) r += (char)c;
        else { snprintf(b, sizeof b, "\\x%02x", c); r += b; }
    }
    return r;
}

void Ctx::begin(const std::string &witness) {
    current = witness;
    ++evaluations;
    ubsanAtBegin = g_ubsanCount;
    if (g_cur) {
        uint32_t n = (uint32_t)std::min(witness.size(), CurSize - 8);
        memcpy(g_cur + 4, witness.data(), n);
        memcpy(g_cur, &n, 4);
    }
    if (samples.size() < 6 && (evaluations == 1 || rng.below(cases / 5 + 1) == 0)) samples.push_back(witness);
}

void Ctx::violation(const std::string &key, const std::string &detail) {
    ++violationCount;
    for (auto &v : violations) if (v.key == key) return; // one witness per key
    if (violations.size() < 40) violations.push_back({key, current, detail});
}

int Ctx::ubsanSince(std::string *where) const {
    if (where) *where = g_ubsanLast;
    return (int)(g_ubsanCount - ubsanAtBegin);
}

void Ctx::ubsanGate(std::initializer_list<const char *> files) {
    if (g_ubsanCount == ubsanAtBegin) return;
    for (size_t i = (size_t)ubsanAtBegin; i < g_ubsanAll.size(); ++i) {
        const std::string &r = g_ubsanAll[i];
        bool hit = false;
        for (auto f : files) if (r.find(f) != std::string::npos) hit = true;
        if (hit) violation("ubsan:" + r, "UndefinedBehaviorSanitizer report " + r + " while processing this input");
        else note("ubsan (not attributed): " + r);
    }
}

void InitSquid() {
    static bool done = false;
    if (done) return;
    done = true;
    Mem::Init();
    // settle the debug channels first: the first critical debugs() would otherwise construct the module,
    // reset all levels to 1 and hoard "early messages" until an assertion (found by the C42 driver)
    Debug::BanCacheLogUse();
    Debug::SettleStderr();
    Debug::SettleSyslog();
    for (auto &l : Debug::Levels) l = -1;
    ConfigParser::RecognizeQuotedValues = false;
    ConfigParser::StrictMode = false;
    getCurrentTime();
    Config.maxRequestHeaderSize = 64 * 1024;
    Config.maxReplyHeaderSize = 64 * 1024;
    Config.maxRequestBufferSize = 512 * 1024;
}

int Loop(Ctx &ctx, const std::function<std::string(Rng &)> &gen, const std::function<void(Ctx &, const std::string &)> &run) {
    if (ctx.replaying) {
        ctx.begin(ctx.replay);
        run(ctx, ctx.replay);
        return 0;
    }
    // shard i runs cases i, i+k, i+2k ... of the global sequence; each case has its own sub-seed
    for (long n = ctx.shard; n < ctx.cases; n += ctx.nshards) {
        // finalised (murmur-style) combination so that nearby seeds give unrelated case sequences
        uint64_t z = (ctx.seed + 0x632BE59BD9B4E019ULL) * 0x9E3779B97F4A7C15ULL;
        z ^= z >> 32; z *= 0xD6E8FEB86659FD93ULL; z ^= z >> 32;
        z += (uint64_t)n * 0xBF58476D1CE4E5B9ULL;
        z ^= z >> 30; z *= 0x94D049BB133111EBULL; z ^= z >> 31;
        Rng r(z);
        const std::string c = gen(r);
        ctx.begin(c);
        run(ctx, c);
    }
    return 0;
}

} // namespace vh

extern "C" void __ubsan_on_report(void) {
    const char *k = "", *m = "", *f = "";
    unsigned l = 0, c = 0;
    char *a = nullptr;
    __ubsan_get_current_report_data(&k, &m, &f, &l, &c, &a);
    ++vh::g_ubsanCount;
    std::string file = f ? f : "";
    // strip build prefix up to "/src/" so keys are stable across cache locations
    auto p = file.rfind("/src/src/");
    if (p != std::string::npos) file = file.substr(p + 5);
    else if ((p = file.find("../")) == 0) file = file.substr(3);
    vh::g_ubsanLast = std::string(k ? k : "") + ":" + file + ":" + std::to_string(l);
    vh::g_ubsanAll.push_back(vh::g_ubsanLast);
}

// squid's main() is renamed to squid_main by objcopy; provide ours
int main(int argc, char **argv) {
    using namespace vh;
    Ctx ctx;
    std::string out, cur, replayFile;
    for (int i = 1; i < argc; ++i) {
        std::string a = argv[i];
        auto val = [&]() -> std::string { return i + 1 < argc ? argv[++i] : ""; };
        if (a == "--seed") ctx.seed = strtoull(val().c_str(), nullptr, 10);
        else if (a == "--cases") ctx.cases = atol(val().c_str());
        else if (a == "--shard") { std::string s = val(); sscanf(s.c_str(), "%d/%d", &ctx.shard, &ctx.nshards); }
        else if (a == "--thorough") ctx.thorough = true;
        else if (a == "--out") out = val();
        else if (a == "--cur") cur = val();
        else if (a == "--replay-hex") { ctx.replaying = true; ctx.replay = hexDecode(val()); }
        else if (a == "--list") { for (auto &e : registry()) printf("%s\t%s\n", e.prop, e.what); return 0; }
        else if (a[0] != '-') ctx.prop = a;
    }
    ctx.rng.reseed(ctx.seed * 1000003ULL + (uint64_t)ctx.shard);
    Driver d = nullptr;
    for (auto &e : registry()) if (ctx.prop == e.prop) d = e.d;
    if (!d) { fprintf(stderr, "vharness: unknown property %s\n", ctx.prop.c_str()); return 2; }
    if (!cur.empty()) {
        int fd = open(cur.c_str(), O_RDWR | O_CREAT | O_TRUNC, 0644);
        if (fd >= 0 && ftruncate(fd, CurSize) == 0)
            g_cur = (char *)mmap(nullptr, CurSize, PROT_READ | PROT_WRITE, MAP_SHARED, fd, 0);
        if (g_cur == MAP_FAILED) g_cur = nullptr;
    }
    InitSquid();
    int rc = 0;
    try {
        rc = d(ctx);
    } catch (const std::exception &e) {
        ctx.violation(std::string("uncaught-exception:") + typeid(e).name(), std::string("uncaught exception escaped the driver: ") + e.what());
    }
    // result JSON
    std::string j = "{";
    j += "\"prop\":\"" + ctx.prop + "\",\"seed\":" + std::to_string(ctx.seed) + ",\"shard\":" + std::to_string(ctx.shard);
    j += ",\"evaluations\":" + std::to_string(ctx.evaluations) + ",\"greys\":" + std::to_string(ctx.greys) + ",\"trivial\":" + std::to_string(ctx.trivial);
    j += ",\"violation_count\":" + std::to_string(ctx.violationCount);
    j += std::string(",\"exhaustive\":") + (ctx.exhaustive ? "true" : "false");
    j += ",\"features\":[";
    { bool f = true; char b[24]; for (auto h : ctx.features) { snprintf(b, sizeof b, "%s\"%llx\"", f ? "" : ",", (unsigned long long)h); j += b; f = false; } }
    j += "],\"samples\":[";
    { bool f = true; for (auto &s : ctx.samples) { j += (f ? "\"" : ",\"") + jsonEscape(show(s, 300)) + "\""; f = false; } }
    j += "],\"counters\":{";
    { bool f = true; for (auto &kv : ctx.counters) { j += (f ? "\"" : ",\"") + jsonEscape(kv.first) + "\":" + std::to_string(kv.second); f = false; } }
    j += "},\"notes\":[";
    { bool f = true; for (auto &s : ctx.notes) { j += (f ? "\"" : ",\"") + jsonEscape(s) + "\""; f = false; } }
    j += "],\"violations\":[";
    { bool f = true; for (auto &v : ctx.violations) {
        j += (f ? "{" : ",{");
        j += "\"key\":\"" + jsonEscape(v.key) + "\",\"witness_hex\":\"" + hexEncode(v.witness) + "\",\"witness\":\"" + jsonEscape(show(v.witness, 400)) + "\",\"detail\":\"" + jsonEscape(v.detail) + "\"}";
        f = false; } }
    j += "]}\n";
    if (!out.empty()) {
        FILE *fp = fopen(out.c_str(), "w");
        if (!fp) return 2;
        fputs(j.c_str(), fp);
        fclose(fp);
    } else fputs(j.c_str(), stdout);
    fflush(nullptr);
    _exit(rc); // skip static destructors of the full squid image
}
