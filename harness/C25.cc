// C25 Header blocks are parsed into exactly their fields.
// Differential oracle: HttpHeader::parse(block, len, clen) called directly (request and reply owners,
// strict / relaxed / relaxed-with-warnings) against a reference field splitter written from the property
// statement and RFC 9112 section 5; must-reject clauses; packInto -> parse fixpoint.
#include "squid.h"
#include "vh.h"
#include "HttpHeader.h"
#include "http/ContentLengthInterpreter.h"
#include "MemBuf.h"
#include "SquidConfig.h"
#include "SquidString.h"

using vh::Ctx;
using vh::Rng;

namespace {

// case encoding: "<Q|P> <mode>\n<header block bytes>"   Q request owner, P reply owner; mode 0 strict, 1 relaxed, 2 relaxed(-1, warn)

bool isTchar(unsigned char c) { return isalnum(c) || (c && strchr("!#$%&'*+-.^_`|~", c)); }
bool isOws(char c) { return c == ' ' || c == '\t'; }
bool isSpc(char c) { return c == ' ' || c == '\t' || c == '\r' || c == '\n' || c == '\v' || c == '\f'; }

std::string trimBy(const std::string &s, bool (*f)(char)) {
    size_t b = 0, e = s.size();
    while (b < e && f(s[b])) ++b;
    while (e > b && f(s[e - 1])) --e;
    return s.substr(b, e - b);
}
std::string lower(std::string s) { for (auto &c : s) c = (char)tolower((unsigned char)c); return s; }

// canonical form of a value for comparison: every obs-fold (OWS CR? LF 1*WSP) becomes one SP, a CR that is
// not part of a line end becomes SP (the relaxed parser's documented substitution)
std::string canonValue(const std::string &raw) {
    std::string v = raw;
    for (size_t i = 0; i < v.size(); ++i) if (v[i] == '\r' && !(i + 1 < v.size() && v[i + 1] == '\n')) v[i] = ' ';
    std::string out;
    for (size_t i = 0; i < v.size();) {
        // try to match [ \t]* \r? \n [ \t]+
        size_t j = i;
        while (j < v.size() && isOws(v[j])) ++j;
        size_t k = j;
        if (k + 1 < v.size() && v[k] == '\r' && v[k + 1] == '\n') ++k;
        if (k + 1 < v.size() && v[k] == '\n' && isOws(v[k + 1])) {
            ++k;
            while (k < v.size() && isOws(v[k])) ++k;
            out += ' ';
            i = k;
            continue;
        }
        out += v[i];
        ++i;
    }
    return out;
}

struct RField {
    std::string name;   // text before the first colon, verbatim
    std::string value;  // text after the first colon, verbatim (may contain line breaks of folds)
    bool hasColon = false;
    int lines = 0;
    bool bareCr = false;
};

struct Ref {
    std::vector<RField> fields;
    bool nul = false, unterminated = false, junkAfterEnd = false, leadingContinuation = false, crOnlyLine = false;
    bool anyFold = false, anyBareCr = false, lfOnly = false, terminated = false;
};

Ref reference(const std::string &block) {
    Ref r;
    r.nul = block.find('\0') != std::string::npos;
    size_t p = 0;
    bool ended = false;
    while (p < block.size()) {
        const size_t nl = block.find('\n', p);
        std::string line;
        if (nl == std::string::npos) { r.unterminated = true; line = block.substr(p); p = block.size(); }
        else { line = block.substr(p, nl - p); p = nl + 1; }
        bool crlf = false;
        if (nl != std::string::npos && !line.empty() && line.back() == '\r') { line.pop_back(); crlf = true; }
        if (nl != std::string::npos && !crlf) r.lfOnly = true;
        if (!line.empty() && line.find_first_not_of('\r') == std::string::npos) r.crOnlyLine = true; // CR+ CR LF
        if (ended) { r.junkAfterEnd = true; continue; }
        const bool bare = line.find('\r') != std::string::npos;
        if (bare) r.anyBareCr = true;
        if (line.empty()) { ended = true; r.terminated = true; continue; }
        if (isOws(line[0])) {
            if (r.fields.empty()) { r.leadingContinuation = true; continue; }
            RField &f = r.fields.back();
            r.anyFold = true;
            ++f.lines;
            f.bareCr = f.bareCr || bare;
            const std::string brk = crlf ? "\r\n" : "\n";
            if (f.hasColon) f.value += brk + line;
            else {
                const size_t c = line.find(':');
                if (c == std::string::npos) f.name += brk + line;
                else { f.name += brk + line.substr(0, c); f.value = line.substr(c + 1); f.hasColon = true; }
            }
            continue;
        }
        RField f;
        f.lines = 1;
        f.bareCr = bare;
        const size_t c = line.find(':');
        if (c == std::string::npos) f.name = line;
        else { f.name = line.substr(0, c); f.value = line.substr(c + 1); f.hasColon = true; }
        r.fields.push_back(f);
    }
    return r;
}

bool isFramingName(const std::string &rawName) {
    const std::string n = lower(trimBy(rawName, isSpc));
    return n == "content-length" || n == "transfer-encoding";
}
bool isCl(const std::string &rawName) { return lower(trimBy(rawName, isSpc)) == "content-length"; }

struct Got { std::string name, value; bool cl; };

bool squidParse(bool request, int mode, const std::string &block, std::vector<Got> &out, std::string *packed) {
    const int saved = Config.onoff.relaxed_header_parser;
    Config.onoff.relaxed_header_parser = mode == 0 ? 0 : mode == 1 ? 1 : -1;
    std::vector<char> buf(block.begin(), block.end()); // the relaxed parser edits the buffer in place
    buf.push_back('\0');
    bool ok;
    {
        HttpHeader hdr(request ? hoRequest : hoReply);
        Http::ContentLengthInterpreter clen;
        ok = hdr.parse(buf.data(), block.size(), clen) != 0;
        HttpHeaderPos pos = HttpHeaderInitPos;
        while (const HttpHeaderEntry *e = hdr.getEntry(&pos))
            out.push_back({std::string(e->name.rawContent(), e->name.length()), e->value.size() ? std::string(e->value.rawBuf(), e->value.size()) : std::string(), e->id == Http::HdrType::CONTENT_LENGTH});
        if (ok && packed) {
            MemBuf mb;
            mb.init();
            hdr.packInto(&mb);
            packed->assign(mb.content(), mb.contentSize());
            mb.clean();
        }
    }
    Config.onoff.relaxed_header_parser = saved;
    return ok;
}

void run(Ctx &ctx, const std::string &w) {
    const auto nl = w.find('\n');
    if (nl != 3 || (w[0] != 'Q' && w[0] != 'P') || w[2] < '0' || w[2] > '2') return;
    const bool request = w[0] == 'Q';
    const int mode = w[2] - '0';
    const bool relaxed = mode != 0;
    const std::string block = w.substr(nl + 1);

    const Ref ref = reference(block);

    std::vector<Got> got;
    std::string packed;
    const bool accepted = squidParse(request, mode, block, got, &packed);
    std::vector<Got> again;
    bool acceptedAgain = false;
    if (accepted) acceptedAgain = squidParse(request, mode, packed, again, nullptr);
    ctx.ubsanGate({"HttpHeader.cc", "HttpHeaderTools.cc", "ContentLengthInterpreter"});

    const std::string where = std::string(request ? "request" : "reply") + (mode == 0 ? " strict" : mode == 1 ? " relaxed" : " relaxed(warn)") + " block '" + vh::show(block, 300) + "'";
    const std::string okey = std::string(request ? "request" : "reply") + ":" + (relaxed ? "relaxed" : "strict");

    // ---- must-reject clauses ----
    bool wsBeforeColon = false, wsBeforeColonOther = false, framingFold = false, framingBareCr = false, noColon = false, badName = false, hasCl = false, hasTe = false;
    for (const auto &f : ref.fields) {
        if (!f.hasColon) { noColon = true; continue; }
        if (f.name.empty()) badName = true;
        else if (isOws(f.name.back()) || f.name.back() == '\n') wsBeforeColon = true; // SP/HTAB (also as the tail of an obs-fold) right before the colon
        else if (isSpc(f.name.back())) wsBeforeColonOther = true;
        { std::string nm = f.name; while (!nm.empty() && isSpc(nm.back())) nm.pop_back(); for (unsigned char c : nm) if (!isTchar(c)) badName = true; }
        if (isFramingName(f.name)) {
            if (f.lines > 1) framingFold = true;
            if (f.bareCr) framingBareCr = true;
            if (isCl(f.name)) hasCl = true; else hasTe = true;
        }
    }
    std::string must;
    if (ref.nul) must = "nul";
    else if (framingFold) must = "obs-fold-in-framing-field";
    else if (framingBareCr) must = "bare-cr-in-framing-field";
    else if (request && wsBeforeColon) must = "whitespace-before-colon";
    else if (request && ref.crOnlyLine) must = "cr-only-line";

    uint64_t bits = 0;
    int b = 0;
    for (bool x : {request, relaxed, mode == 2, accepted, ref.nul, wsBeforeColon, wsBeforeColonOther, framingFold, framingBareCr, ref.crOnlyLine, ref.anyFold, ref.anyBareCr, ref.lfOnly,
                   ref.terminated, ref.unterminated, ref.junkAfterEnd, ref.leadingContinuation, noColon, badName, hasCl, hasTe})
        bits |= (uint64_t)x << b++;
    bits |= (uint64_t)std::min<size_t>(ref.fields.size(), 5) << 32;

    if (!must.empty()) {
        ctx.feature(bits);
        ctx.count("must_reject_blocks");
        if (accepted)
            ctx.violation("accepted:" + must + ":" + okey, where + " must be rejected (" + must + ") but was accepted with " + std::to_string(got.size()) + " fields");
        return;
    }
    if (!accepted) {
        // rejection is not constrained by the statement; record when a plainly well-formed block is refused
        const bool plain = !ref.unterminated && !ref.junkAfterEnd && !ref.leadingContinuation && !noColon && !badName && !ref.anyBareCr && !ref.anyFold && !wsBeforeColon && !wsBeforeColonOther && !hasCl && !ref.crOnlyLine;
        if (plain) { ctx.count("plain_block_rejected"); ctx.note("plain block rejected: " + where); }
        ctx.feature(bits, !block.empty());
        return;
    }

    // ---- accepted: stored fields == the block's pairs ----
    if (ref.unterminated || ref.junkAfterEnd || ref.leadingContinuation) { ctx.grey(); return; } // what the block's fields are is not settled
    if (!request && (wsBeforeColon || wsBeforeColonOther)) ctx.count("reply_whitespace_before_colon_stripped"); // RFC 9112 5.1: a proxy removes it from responses
    if (request && wsBeforeColonOther) { ctx.grey(); return; }
    ctx.feature(bits, !ref.fields.empty());

    if (noColon) {
        ctx.violation("accepted:line-without-colon:" + okey, where + " contains a line that is not a name:value pair but was accepted");
        return;
    }
    std::vector<std::pair<std::string, std::string>> want; // (lower-case name, canonical value)
    for (const auto &f : ref.fields) {
        if (isCl(f.name)) continue; // C26's subject
        want.push_back({lower(trimBy(f.name, isSpc)), canonValue(f.value)});
    }
    ctx.count("accepted_blocks_compared");
    ctx.count("fields_compared", (long)want.size());
    std::vector<Got> gotNoCl;
    for (const auto &g : got) if (!g.cl) gotNoCl.push_back(g);
    if (gotNoCl.size() != want.size()) {
        ctx.violation("fields:count:" + okey, where + ": " + std::to_string(gotNoCl.size()) + " fields stored (Content-Length aside) but the block has " + std::to_string(want.size()));
        return;
    }
    for (size_t i = 0; i < want.size(); ++i) {
        const std::string gv = canonValue(gotNoCl[i].value);
        if (lower(gotNoCl[i].name) != want[i].first) {
            ctx.violation("fields:name:" + okey, where + ": field " + std::to_string(i) + " is named '" + vh::show(gotNoCl[i].name) + "' expected '" + vh::show(want[i].first) + "'");
            return;
        }
        if (!gotNoCl[i].value.empty() && (isOws(gotNoCl[i].value.front()) || isOws(gotNoCl[i].value.back()))) {
            ctx.violation("fields:value-not-trimmed:" + okey, where + ": field " + std::to_string(i) + " value '" + vh::show(gotNoCl[i].value) + "' keeps surrounding whitespace");
            return;
        }
        if (gv != trimBy(want[i].second, isOws) && gv != trimBy(want[i].second, isSpc)) { // VT/FF at the edges may or may not count as whitespace
            ctx.violation("fields:value:" + okey, where + ": field " + std::to_string(i) + " value '" + vh::show(gotNoCl[i].value) + "' expected '" + vh::show(trimBy(want[i].second, isOws)) + "'");
            return;
        }
    }

    // ---- pack -> parse fixpoint (all stored fields, Content-Length included) ----
    if (!acceptedAgain) {
        ctx.violation("fixpoint:repacked-block-rejected:" + okey, where + " packs as '" + vh::show(packed, 300) + "' which is rejected");
        return;
    }
    bool same = again.size() == got.size();
    for (size_t i = 0; same && i < got.size(); ++i) same = again[i].name == got[i].name && again[i].value == got[i].value && again[i].cl == got[i].cl;
    if (!same)
        ctx.violation("fixpoint:fields-differ:" + okey, where + " packs as '" + vh::show(packed, 300) + "' which parses into different fields");
}

// ---- generator -----------------------------------------------------------------------------

const char *const KnownNames[] = {"Host", "Accept", "Content-Type", "Transfer-Encoding", "Content-Length", "Connection", "Via", "X-Forwarded-For", "Cache-Control", "Date", "Set-Cookie", "Proxy-Authorization", "TE", "Trailer", "Range", "Expect"};

std::string mangleCase(Rng &r, std::string s) {
    switch (r.below(6)) {
    case 0: for (auto &c : s) c = (char)tolower((unsigned char)c); break;
    case 1: for (auto &c : s) c = (char)toupper((unsigned char)c); break;
    case 2: for (auto &c : s) if (r.coin()) c = (char)(isupper((unsigned char)c) ? tolower((unsigned char)c) : toupper((unsigned char)c)); break;
    default: break;
    }
    return s;
}

std::string genName(Rng &r, bool &framing) {
    framing = false;
    const unsigned k = (unsigned)r.below(100);
    if (k < 22) { framing = true; return mangleCase(r, r.coin() ? "Transfer-Encoding" : "Content-Length"); }
    if (k < 60) { std::string n = KnownNames[r.below(sizeof(KnownNames) / sizeof(*KnownNames))]; framing = n == "Transfer-Encoding" || n == "Content-Length"; return mangleCase(r, n); }
    if (k < 90) return r.from("abcdefXYZ0189-_.!#$%&'*+^`|~", 1 + r.below(12));
    if (k < 94) return r.pick({"X-Content-Length", "Content-Length2", "Transfer-Encodin", "Content_Length", "Content-Lengt"});
    return r.pick({"", "Bad Name", "Bad(Name", "Na\"me", "N\x7fme", "N\xc3\xa9", "@x", "a/b", "[x]", "x;y"});
}

std::string genValue(Rng &r, const std::string &name) {
    const std::string n = lower(name);
    if (n == "content-length") return r.chance(9, 10) ? std::to_string(r.below(3) == 0 ? 0 : r.below(100000)) : r.pick({"", "abc", "5, 5", "-1", "5 ", "99999999999999999999"});
    if (n == "transfer-encoding") return r.pick({"chunked", "chunked", "Chunked", "gzip", "gzip, chunked", "identity", ""});
    std::string v;
    switch (r.below(8)) {
    case 0: v = ""; break;
    case 1: v = r.pick({"example.com", "*/*", "text/html; charset=utf-8", "close", "keep-alive, Upgrade", "1.1 proxy (squid)", "a=b; c=\"d, e\"", "Mon, 01 Jan 2024 00:00:00 GMT"}); break;
    case 2: v = r.from("abc XYZ:,;=\"/\t", 1 + r.below(20)); break;
    case 3: v = r.from("ab\x80\xff\xe9 ", 1 + r.below(8)); break;
    case 4: v = r.from("a:b", 1 + r.below(6)); break;
    case 5: v = r.from("abcdefghijklmnopqrstuvwxyz0123456789", 1 + r.below(40)); break;
    case 6: v = r.from("a \t\v\f", 1 + r.below(6)); break;
    default: v = r.from("!#$%&'()*+,-./0123456789:;<=>?@AZ[\\]^_`az{|}~", 1 + r.below(16)); break;
    }
    return v;
}

std::string gen(Rng &r) {
    const bool request = r.coin();
    const int mode = (int)r.below(5) < 2 ? 0 : (r.chance(1, 6) ? 2 : 1);
    std::string block;
    const size_t n = r.chance(1, 20) ? 0 : 1 + r.below(5);
    const bool clean = r.chance(1, 3);  // a third of the blocks are free of anomalies: they exercise the accepted path
    const bool lfOnly = r.chance(1, 10);
    const std::string eol = lfOnly ? "\n" : "\r\n";
    for (size_t i = 0; i < n; ++i) {
        bool framing;
        std::string name = genName(r, framing);
        if (clean && (name.empty() || !isTchar((unsigned char)name[0]) || name.find_first_of(" (\"\x7f\xc3@/[;") != std::string::npos)) name = "X-Ok";
        std::string value = genValue(r, name);
        std::string colon = r.pick({": ", ": ", ": ", ":", ":\t", ":  "});
        const unsigned anomalyRate = clean ? 0 : framing ? 3 : 8; // 1/rate
        if (anomalyRate && r.chance(1, anomalyRate)) colon = r.pick({" :", "\t: ", "  : ", " : ", "\v:", "\r: "});
        std::string line = name + colon + value;
        if (r.chance(1, 5)) line += r.pick({" ", "\t", "  ", " \t"});
        if (anomalyRate && r.chance(1, anomalyRate)) { // obs-fold somewhere in the value (or right after the colon)
            const size_t from = name.size() + 1;
            const size_t at = from + r.below(line.size() - from + 1);
            line.insert(at, r.pick({"\r\n ", "\r\n\t", "\n ", "\r\n  ", " \r\n ", "\r\n \r\n ", "\r\n\t\r\n\tx"}));
        }
        if (anomalyRate && r.chance(1, anomalyRate * 2)) { // bare CR
            const size_t at = r.below(line.size() + 1);
            line.insert(at, r.chance(1, 4) ? "\r\r" : "\r");
        }
        if (!clean && r.chance(1, 40)) line += eol + r.pick({" ", "\t", "  "}); // whitespace-only continuation
        block += line + eol;
        if (!clean && request && r.chance(1, 40)) block += r.pick({"\r\r\n", "\r\r\r\n"});
        if (!clean && r.chance(1, 60)) block += r.pick({"no colon here", " leading space: x", "\r\n"}) + eol;
    }
    const unsigned t = (unsigned)r.below(10);
    if (t < 7) block += eol;                       // terminated
    else if (t == 7 && !clean) block += eol + r.pick({"X: after", "junk", "\r\n"}); // bytes after the terminator
    else if (t == 8 && !clean && !block.empty()) block.erase(block.size() - eol.size()); // last line unterminated
    if (!clean && r.chance(1, 12)) { // one or two random byte edits
        for (int k = (int)r.below(2) + 1; k > 0; --k) {
            const char c = r.from(std::string("\r\n \t:\0\v\fa\x80,", 12), 1)[0];
            const size_t at = r.below(block.size() + 1);
            switch (r.below(3)) {
            case 0: block.insert(at, 1, c); break;
            case 1: if (at < block.size()) block[at] = c; break;
            default: if (at < block.size()) block.erase(at, 1); break;
            }
        }
    }
    return std::string(request ? "Q " : "P ") + std::to_string(mode) + "\n" + block;
}

int drive(Ctx &ctx) {
    if (!ctx.replaying) {
        // small scope (split over the shards): each line-break / whitespace / colon variant applied to a framing and a non-framing field
        long n = 0, idx = 0;
        const std::vector<std::string> names = {"Content-Length", "Transfer-Encoding", "content-length", "TRANSFER-ENCODING", "X-Other", "Host"};
        const std::vector<std::string> pre = {"", " ", "\t", "\r", "\v", "\r\n ", "\n\t"};        // between name and colon
        const std::vector<std::string> mid = {"", " ", "\r\n ", "\n ", "\r", "\r\n\t ", " \r", std::string(1, '\0')}; // between colon and value
        const std::vector<std::string> post = {"", " ", "\r", "\r\r", "\r\n ", "\r\n x", "\n\tx", "\r\n \r\n ", std::string(1, '\0')}; // after the value
        const std::vector<std::string> tail = {"\r\n", "\r\n\r\n", "\n\n", "\r\nX: y\r\n\r\n", "\r\n\r\r\n\r\n"};
        for (const char *own : {"Q", "P"}) for (int mode = 0; mode < 3; ++mode) for (const auto &nm : names) for (const auto &a : pre) for (const auto &b : mid) for (const auto &c : post) for (const auto &t : tail) {
            if (idx++ % ctx.nshards != ctx.shard) continue;
            const std::string val = lower(nm) == "content-length" ? "5" : lower(nm) == "transfer-encoding" ? "chunked" : "v";
            const std::string w = std::string(own) + " " + std::to_string(mode) + "\n" + nm + a + ":" + b + val + c + t;
            ctx.begin(w); run(ctx, w); ++n;
        }
        ctx.count("small_scope_cases_enumerated", n);
    }
    return vh::Loop(ctx, gen, run);
}

} // namespace

VH_REGISTER(C25, drive, "HttpHeader::parse vs reference field splitter, must-reject clauses, pack/parse fixpoint");
