// C21 HTTP request parsing does not depend on how input is segmented.
// The driver mimics ConnStateData::parseHttpRequest / Http::One::Server::parseOneRequest: one
// RequestParser is kept while it needsMoreData(); every read appends to inBuf; parse(inBuf);
// inBuf = remaining(); the parser is never called with an empty inBuf. The outcome after the whole
// input was delivered in increments must equal the outcome of delivering it at once:
// need-more-data / accepted / rejected with parseStatusCode, and for accepted requests the method,
// target, version, header block and consumed length. (After a rejection the connection is closed and the
// parser's leftover buffer is not an outcome, so it is not compared.)
#include "squid.h"
#include "vh.h"
#include "http/one/RequestParser.h"
#include "http/RequestMethod.h"
#include "http/StatusCode.h"
#include "sbuf/SBuf.h"
#include "SquidConfig.h"

using vh::Ctx;
using vh::Rng;

namespace {

// ---------------------------------------------------------------- case encoding
// "<relaxed> <limit> <preserve> <splits>\n<payload>"
// splits: "A" every single cut point plus byte-by-byte; "B" byte-by-byte; "R<seed>" 24 seeded random
// multi-cut deliveries plus byte-by-byte; or one explicit ascending comma separated cut list
struct Case {
    int relaxed = 0;
    long limit = 65536;
    int preserve = 0;
    std::string splits = "A";
    std::string payload;
};

std::string enc(const Case &c) { return std::to_string(c.relaxed) + " " + std::to_string(c.limit) + " " + std::to_string(c.preserve) + " " + c.splits + "\n" + c.payload; }

bool dec(const std::string &w, Case &c) {
    const auto nl = w.find('\n');
    if (nl == std::string::npos || nl > 4000) return false;
    char sp[4096];
    if (sscanf(w.substr(0, nl).c_str(), "%d %ld %d %4000s", &c.relaxed, &c.limit, &c.preserve, sp) != 4) return false;
    c.splits = sp;
    c.payload = w.substr(nl + 1);
    if (c.limit < 1) c.limit = 1;
    return true;
}

std::vector<size_t> parseCuts(const std::string &spec, size_t n) {
    std::vector<size_t> cuts;
    size_t last = 0;
    const char *p = spec.c_str();
    while (*p) {
        char *end = nullptr;
        unsigned long v = strtoul(p, &end, 10);
        if (end == p) break;
        if (v > n) v = n;
        if (v < last) v = last;
        cuts.push_back(v);
        last = v;
        if (*end != ',') break;
        p = end + 1;
    }
    return cuts;
}

std::string cutsToString(const std::vector<size_t> &cuts) {
    std::string s;
    for (size_t i = 0; i < cuts.size(); ++i) s += (i ? "," : "") + std::to_string(cuts[i]);
    return s.empty() ? "-" : s;
}

// ---------------------------------------------------------------- Squid side

struct Out {
    enum Kind { NeedMore, Accept, Reject } kind = NeedMore;
    int parseStatus = 0;
    std::string method, target, mime;
    unsigned major = 0, minor = 0;
    int proto = 0;
    size_t consumed = 0;
    size_t decidedAfter = 0; // bytes delivered when the parser reached its verdict
    bool callerAbort = false; // ConnStateData's Must(inBuf.length() < Config.maxRequestHeaderSize) would throw
    bool threw = false;
    std::string what;
};

std::string str(const SBuf &b) { return std::string(b.rawContent(), b.length()); }

Out runSquid(const Case &c, const std::vector<size_t> &cuts) {
    Out o;
    Config.onoff.relaxed_header_parser = c.relaxed;
    Config.maxRequestHeaderSize = (size_t)c.limit;
    Http1::RequestParserPointer hp = new Http1::RequestParser(c.preserve != 0);
    SBuf inBuf;
    size_t fed = 0;
    try {
        for (size_t si = 0; si <= cuts.size(); ++si) {
            const size_t upto = si < cuts.size() ? cuts[si] : c.payload.size();
            if (upto == fed) continue; // a zero-byte read is EOF, not a delivery
            inBuf.append(c.payload.data() + fed, upto - fed);
            fed = upto;
            // clientParseRequests(): while (!inBuf.isEmpty() ...) parseOneRequest()
            if (inBuf.isEmpty()) continue;
            const bool ok = hp->parse(inBuf);
            inBuf = hp->remaining(); // sync the buffers after parsing
            if (hp->needsMoreData()) {
                if (inBuf.length() >= Config.maxRequestHeaderSize) { o.callerAbort = true; o.kind = Out::Reject; o.decidedAfter = fed; break; }
                continue;
            }
            o.kind = ok ? Out::Accept : Out::Reject;
            o.decidedAfter = fed;
            break;
        }
    } catch (const std::exception &e) {
        o.kind = Out::Reject; o.threw = true; o.what = e.what();
    } catch (...) {
        o.kind = Out::Reject; o.threw = true; o.what = "non-std exception";
    }
    o.parseStatus = o.callerAbort ? -1 : (int)hp->parseStatusCode;
    const SBuf &img = hp->method().image();
    o.method = str(img);
    o.target = str(hp->requestUri());
    o.mime = str(hp->mimeHeader());
    o.proto = (int)hp->messageProtocol().protocol;
    o.major = hp->messageProtocol().major;
    o.minor = hp->messageProtocol().minor;
    o.consumed = fed - inBuf.length();
    if (c.preserve && !o.threw) {
        // the "preserved" bytes are what on_unsupported_protocol tunnels: they must be exactly the consumed prefix
        const std::string parsed = str(hp->parsed());
        if (o.kind != Out::Reject && parsed != c.payload.substr(0, o.consumed)) { o.threw = true; o.what = "parsed() is not the consumed prefix"; }
    }
    Config.onoff.relaxed_header_parser = 0;
    Config.maxRequestHeaderSize = 64 * 1024;
    return o;
}

const char *kindName(Out::Kind k) { return k == Out::NeedMore ? "needmore" : k == Out::Accept ? "accept" : "reject"; }

std::string describe(const Out &o) {
    std::string s = kindName(o.kind);
    if (o.kind == Out::Reject) s += " status=" + std::to_string(o.parseStatus) + " (decided after " + std::to_string(o.decidedAfter) + " bytes)";
    if (o.kind == Out::Accept) s += " method='" + vh::show(o.method, 40) + "' target='" + vh::show(o.target, 60) + "' version=" + std::to_string(o.major) + "." + std::to_string(o.minor) +
                                        " mime='" + vh::show(o.mime, 60) + "' consumed=" + std::to_string(o.consumed);
    if (o.threw) s += " EXCEPTION " + o.what;
    return s;
}

const char *differ(const Out &a, const Out &b) {
    if (a.kind != b.kind) {
        if (a.kind == Out::Accept || b.kind == Out::Accept) return (a.kind == Out::Reject || b.kind == Out::Reject) ? "accept-vs-reject" : "accept-vs-needmore";
        return "reject-vs-needmore";
    }
    if (a.kind == Out::Reject) return a.parseStatus != b.parseStatus ? "reject-status" : nullptr;
    if (a.kind == Out::Accept) {
        if (a.method != b.method) return "method";
        if (a.target != b.target) return "target";
        if (a.proto != b.proto || a.major != b.major || a.minor != b.minor) return "version";
        if (a.mime != b.mime) return "header-block";
        if (a.consumed != b.consumed) return "consumed";
    }
    return nullptr;
}

// ---------------------------------------------------------------- judge

int lenBucket(size_t n) { return n == 0 ? 0 : n < 16 ? 1 : n < 48 ? 2 : n < 128 ? 3 : n < 1024 ? 4 : 5; }

// shape of the input: leading garbage class, line ending classes seen, fold, pipelined tail
std::string shapeOf(const std::string &p) {
    std::string s;
    size_t i = 0;
    while (i < p.size() && (p[i] == '\r' || p[i] == '\n')) ++i;
    s += i ? "g" : "";
    bool barelf = false, crcr = false, fold = false, nul = false, ctl = false, hi = false;
    for (size_t k = 0; k < p.size(); ++k) {
        const unsigned char ch = p[k];
        if (ch == '\n' && (k == 0 || p[k - 1] != '\r')) barelf = true;
        if (ch == '\r' && k + 1 < p.size() && p[k + 1] == '\r') crcr = true;
        if (ch == '\n' && k + 1 < p.size() && (p[k + 1] == ' ' || p[k + 1] == '\t')) fold = true;
        if (!ch) nul = true; else if (ch < 0x20 && ch != '\r' && ch != '\n' && ch != '\t') ctl = true;
        if (ch >= 0x80) hi = true;
    }
    return s + (barelf ? "l" : "") + (crcr ? "c" : "") + (fold ? "f" : "") + (nul ? "0" : "") + (ctl ? "x" : "") + (hi ? "8" : "");
}

void run(Ctx &ctx, const std::string &w) {
    Case c;
    if (!dec(w, c)) return;
    const size_t n = c.payload.size();
    const Out one = runSquid(c, {});
    long runs = 1;
    if (one.threw) { ctx.violation("exception-or-preserve-mismatch:one-shot", one.what); }

    std::string firstDiff;
    size_t earliestCut = 0;
    long greySplits = 0;
    auto trySplit = [&](const std::vector<size_t> &cuts) {
        if (!firstDiff.empty()) return;
        const Out o = runSquid(c, cuts);
        ++runs;
        if (o.threw) { firstDiff = "exception"; ctx.violation("exception-or-preserve-mismatch:split", "delivery cuts " + cutsToString(cuts) + ": " + o.what); return; }
        if (const char *d = differ(one, o)) {
            earliestCut = cuts.empty() ? 0 : cuts[0];
            // key refinement (naming only, never the verdict): a cut that leaves a lone CR of a leading empty line at the
            // end of the first delivery is the known class F1; too-large statuses are named by their pair
            std::string tag;
            if (c.relaxed) for (size_t k : cuts) {
                if (k == 0 || k >= n || c.payload[k - 1] != '\r' || c.payload[k] != '\n') continue;
                size_t i = 0;
                while (i < k - 1 && (c.payload[i] == '\n' || (c.payload[i] == '\r' && c.payload[i + 1] == '\n'))) ++i;
                if (i == k - 1) { tag = ":lone-cr-of-leading-empty-line"; break; }
            }
            if (tag.empty() && c.limit <= (long)n + 64) {
                // request_header_max_size can be reached by some delivery: the difference is a size-limit effect.
                // Thresholds within +-64 bytes of the limit are a documented grey zone (DESIGN 7.1): not judged.
                size_t g = 0;
                while (g < n && (c.payload[g] == '\r' || c.payload[g] == '\n')) ++g;
                const size_t lf = c.payload.find('\n', g);
                const long sizes[] = {(long)n, (long)(n - g), lf == std::string::npos ? -1000 : (long)(lf + 1), lf == std::string::npos ? -1000 : (long)(lf + 1 - g),
                                      one.kind == Out::Accept ? (long)one.consumed : -1000, o.kind == Out::Accept ? (long)o.consumed : -1000};
                bool near = false;
                for (long x : sizes) if (x >= 0 && c.limit >= x - 64 && c.limit <= x + 64) near = true;
                if (near) { ctx.count("grey_size_limit_within_64"); ++greySplits; return; }
                tag = ":size-limit";
            }
            firstDiff = d + tag;
            ctx.count("differs_" + firstDiff);
            ctx.violation(std::string("split-differs:") + d + tag, "mode " + std::string(c.relaxed ? "relaxed" : "strict") + ", limit " + std::to_string(c.limit) + ", delivery cuts " + cutsToString(cuts) +
                          ": " + describe(o) + " ; one-shot: " + describe(one));
        }
    };
    std::vector<size_t> all;
    for (size_t p = 1; p < n; ++p) all.push_back(p);
    if (c.splits == "A") {
        for (size_t p = 1; p < n; ++p) trySplit({p});
        if (n > 2) trySplit(all);
    } else if (c.splits == "B") {
        trySplit(all);
    } else if (c.splits[0] == 'R') {
        Rng r(strtoull(c.splits.c_str() + 1, nullptr, 10));
        for (int k = 0; k < 24 && n > 1; ++k) {
            std::vector<size_t> cuts;
            const int m = 1 + (int)r.below(k < 8 ? 1 : k < 16 ? 3 : 8);
            for (int i = 0; i < m; ++i) cuts.push_back(1 + r.below(n - 1));
            std::sort(cuts.begin(), cuts.end());
            trySplit(cuts);
        }
        if (n > 2 && n <= 2000) trySplit(all);
    } else if (c.splits != "-") {
        trySplit(parseCuts(c.splits, n));
    }
    (void)earliestCut;
    ctx.ubsanGate({"RequestParser.cc", "one/Parser.cc", "parser/Tokenizer.cc", "mime_header.cc", "RequestMethod.cc"});
    ctx.count("parser_runs", runs);
    ctx.count(std::string("oneshot_") + kindName(one.kind));

    const std::string feat = std::string(c.relaxed ? "R" : "S") + (c.preserve ? "p" : "") + " " + kindName(one.kind) + (one.kind == Out::Reject ? std::to_string(one.parseStatus) : "") +
                             (one.kind == Out::Accept ? " v" + std::to_string(one.major) + "." + std::to_string(one.minor) + " h" + std::to_string(lenBucket(one.mime.size())) + (one.consumed < n ? "+" : "") : "") +
                             " L" + std::to_string(c.limit >= 65536 ? 2 : (long)n + 64 < c.limit ? 1 : 0) + " n" + std::to_string(lenBucket(n)) + " " + shapeOf(c.payload) + " s" + c.splits.substr(0, 1) +
                             (firstDiff.empty() ? "" : " !" + firstDiff);
    if (greySplits && firstDiff.empty()) { ctx.grey(); return; } // some deliveries of this input were not judged
    ctx.feature(feat, n > 1);
}

// ---------------------------------------------------------------- generators

std::string genRequestLine(Rng &r, const std::string &nl) {
    std::string m = r.pick({"GET", "GET", "GET", "POST", "HEAD", "OPTIONS", "CONNECT", "PUT", "get", "X-Y", "PRI"});
    std::string t = r.pick({"/", "/a", "/index.html", "/a/b?c=d", "http://h/", "http://example.com:80/x", "*", "h:443", "/%41", "/a b", "/\xc3\xa9", "/a\"b"});
    std::string d1 = r.chance(7, 8) ? " " : r.pick({"  ", "\t", " \t", "\r", "\v", "\f "});
    std::string d2 = r.chance(7, 8) ? " " : r.pick({"  ", "\t", " \t", "\r", "\v", "\f "});
    std::string v = r.chance(5, 6) ? (r.chance(3, 4) ? "HTTP/1.1" : "HTTP/1.0") : r.pick({"HTTP/2.0", "HTTP/0.9", "HTTP/1.2", "HTTP/10.1", "HTTP/1.", "http/1.1", "HTTP/11", "FOO/1.0"});
    if (r.chance(1, 10)) return m + d1 + t + nl; // HTTP/0.9 simple-request
    return m + d1 + t + d2 + v + nl;
}

std::string genHeaders(Rng &r, const std::string &nl) {
    std::string s;
    const int k = (int)r.below(4);
    for (int i = 0; i < k; ++i) {
        switch (r.below(9)) {
        case 0: s += "Host: x" + nl; break;
        case 1: s += "X-Fold: a" + nl + (r.coin() ? " " : "\t") + "b" + nl; break;
        case 2: s += r.from("abcdefghijklmnopqrstuvwxyz-", 1 + r.below(8)) + ":" + r.from("abc def;=,\"/0123456789", r.below(20)) + nl; break;
        case 3: if (i == 0) { s += r.pick({" leading-ws line", "\tx: y", " ", "\v", "\r"}) + nl; break; }
            s += "A: b" + nl; break;
        case 4: s += "Content-Length: " + std::to_string(r.below(100)) + nl; break;
        case 5: s += std::string("A:b") + (r.coin() ? "\r" : "") + nl; break;
        default: s += "Host: example.com" + nl; break;
        }
    }
    return s;
}

std::string genPrefix(Rng &r) {
    if (r.chance(3, 5)) return "";
    return r.pick({"\r\n", "\n", "\r\n\r\n", "\r", "\r\r\n", "\n\r\n", "\r\n\n", " ", "\t", "\r\n \r\n", "\n\n\n", "\r\n\r", "\0"});
}

std::string genTail(Rng &r) {
    if (r.chance(1, 2)) return "";
    return r.pick({"body", "GET / HTTP/1.1\r\n\r\n", "\r\n", "\n", "\r", "x", "0\r\n\r\n", "GET /"});
}

std::string genHead(Rng &r) {
    const std::string nl = r.chance(5, 6) ? "\r\n" : r.pick({"\n", "\r\r\n", "\n", "\r\n"});
    const std::string nl2 = r.chance(9, 10) ? nl : r.pick({"\n", "\r\n", "\r\r\n", "\r"});
    return genPrefix(r) + genRequestLine(r, nl) + genHeaders(r, nl2) + (r.chance(9, 10) ? nl2 : "") + genTail(r);
}

std::string mutate(Rng &r, std::string s) {
    if (s.empty()) return s;
    const size_t at = r.below(s.size());
    static const std::vector<std::string> dict = {" ", "\t", "\r", "\n", "\v", "\f", "\x01", "\x7f", "\x80", "0", "/", ".", "H", ":", "\r\n", "\n\n", "\r\r"};
    switch (r.below(4)) {
    case 0: s[at] = (char)r.next(); break;
    case 1: s.insert(at, r.coin() ? std::string(1, (char)r.next()) : r.pick(dict)); break;
    case 2: s.erase(at, 1 + r.below(2)); break;
    default: s.replace(at, 1, r.pick(dict)); break;
    }
    return s;
}

std::string gen(Rng &r) {
    Case c;
    c.relaxed = r.chance(3, 5) ? 1 : 0; // squid.conf default is relaxed
    if (r.chance(1, 40)) c.relaxed = -1;
    c.preserve = r.chance(1, 5) ? 1 : 0;
    const unsigned sel = (unsigned)r.below(100);
    if (sel < 35) c.payload = genHead(r);
    else if (sel < 65) c.payload = mutate(r, genHead(r));
    else if (sel < 75) { c.payload = genHead(r); c.payload.resize(r.below(c.payload.size() + 1)); }
    else if (sel < 82) c.payload = mutate(r, mutate(r, genHead(r)));
    else if (sel < 92) { // size limits: long target or long header block against a small limit
        std::string head = r.coin() ? "GET /" + std::string(r.below(400), 'a') + (r.chance(1, 4) ? "" : " HTTP/1.1") + "\r\n" : "GET / HTTP/1.1\r\n";
        if (r.coin()) head += "X: " + std::string(r.below(400), 'b') + "\r\n";
        head += r.chance(4, 5) ? "\r\n" : "";
        c.payload = genPrefix(r) + head + genTail(r);
    } else c.payload = r.coin() ? r.bytes(1 + r.below(40)) : r.from("GET / HTP1.\r\n\t:", 1 + r.below(40));
    const size_t n = c.payload.size();
    switch (r.below(4)) {
    case 0: c.limit = 65536; break;
    case 1: c.limit = 256; break;
    case 2: c.limit = 16 + (long)r.below(300); break;
    default: c.limit = (long)n + r.range(-70, 70); if (c.limit < 8) c.limit = 8; break;
    }
    if (sel < 82 && r.chance(2, 3)) c.limit = 65536;
    if (n <= 64) c.splits = "A";
    else c.splits = "R" + std::to_string(r.below(1000000000));
    return enc(c);
}

int drive(Ctx &ctx) {
    if (!ctx.replaying) {
        // small scope: every garbage prefix x terminator variant of a minimal request, every cut point, both modes
        static const char *prefixes[] = {"", "\r\n", "\n", "\r", "\r\n\r\n", "\r\r\n", "\n\r\n", "\r\n\r", "\n\r", " ", "\r\n "};
        static const char *lines[] = {"GET / HTTP/1.1", "GET /", "GET  /  HTTP/1.0", "POST http://h/ HTTP/1.1"};
        static const char *nls[] = {"\r\n", "\n", "\r\r\n"};
        static const char *blocks[] = {"", "Host: x\r\n", "A: b\n", " c\r\nD: e\r\n"};
        static const char *tails[] = {"", "x", "\r\n"};
        long cnt = 0, idx = 0;
        for (auto pre : prefixes) for (auto ln : lines) for (auto nl : nls) for (auto bl : blocks) for (auto tl : tails) for (int relaxed = 0; relaxed < 2; ++relaxed) {
            if ((idx++ % ctx.nshards) != ctx.shard) continue;
            Case c; c.relaxed = relaxed; c.splits = "A";
            c.payload = std::string(pre) + ln + nl + bl + nl + tl;
            const std::string w = enc(c);
            ctx.begin(w); run(ctx, w); ++cnt;
        }
        ctx.count("prefix_terminator_cases_enumerated", cnt);
    }
    return vh::Loop(ctx, gen, run);
}

} // namespace

VH_REGISTER(C21, drive, "RequestParser driven like ConnStateData: every segmentation == one-shot outcome");
