// C26 Content-Length is accepted only when unambiguous.
// Differential oracle: HttpHeader::parse (+ Http::ContentLengthInterpreter) on header blocks carrying 0..n
// Content-Length fields/lists vs a reference written from the property statement (arbitrary-size decimals).
#include "squid.h"
#include "vh.h"
#include "HttpHeader.h"
#include "http/ContentLengthInterpreter.h"
#include "SquidConfig.h"
#include "SquidString.h"

#include <climits>

using vh::Ctx;
using vh::Rng;

namespace {

// case encoding: "<Q|P> <mode>\n<header block bytes>"   Q request owner, P reply owner; mode 0 strict, 1 relaxed, 2 relaxed(warn, -1)

bool isTchar(unsigned char c) { return isalnum(c) || (c && strchr("!#$%&'*+-.^_`|~", c)); }
bool isOws(char c) { return c == ' ' || c == '\t'; }
bool isVtFf(char c) { return c == '\v' || c == '\f'; }

std::string trimOws(const std::string &s) {
    size_t b = 0, e = s.size();
    while (b < e && isOws(s[b])) ++b;
    while (e > b && isOws(s[e - 1])) --e;
    return s.substr(b, e - b);
}
std::string trimWsp(const std::string &s) { // also VT/FF: the lenient reading
    size_t b = 0, e = s.size();
    while (b < e && (isOws(s[b]) || isVtFf(s[b]))) ++b;
    while (e > b && (isOws(s[e - 1]) || isVtFf(s[e - 1]))) --e;
    return s.substr(b, e - b);
}
bool allDigits(const std::string &s) { if (s.empty()) return false; for (char c : s) if (c < '0' || c > '9') return false; return true; }
// canonical decimal text (no leading zeros) or "" if it does not fit int64
std::string canon(const std::string &digits) {
    size_t z = 0;
    while (z + 1 < digits.size() && digits[z] == '0') ++z;
    const std::string s = digits.substr(z);
    static const std::string Max = "9223372036854775807";
    if (s.size() > Max.size() || (s.size() == Max.size() && s > Max)) return "";
    return s;
}

struct Field { std::string name, value; };

// simple line structure only; anything else belongs to C25 and is not judged here
bool splitSimple(const std::string &block, std::vector<Field> &out) {
    size_t p = 0;
    bool ended = false;
    while (p < block.size()) {
        const size_t nl = block.find('\n', p);
        if (nl == std::string::npos) return false;
        std::string line = block.substr(p, nl - p);
        p = nl + 1;
        if (!line.empty() && line.back() == '\r') line.pop_back();
        if (line.find('\r') != std::string::npos || line.find('\0') != std::string::npos) return false;
        if (line.empty()) { ended = true; break; }
        if (isOws(line[0])) return false; // fold
        const size_t colon = line.find(':');
        if (colon == std::string::npos || colon == 0) return false;
        for (size_t i = 0; i < colon; ++i) if (!isTchar(line[i])) return false;
        out.push_back({line.substr(0, colon), trimOws(line.substr(colon + 1))});
    }
    if (ended && p != block.size()) return false; // bytes after the terminator
    return true;
}

bool ieq(const std::string &a, const char *b) { return strcasecmp(a.c_str(), b) == 0; }

void run(Ctx &ctx, const std::string &w) {
    const auto nl = w.find('\n');
    if (nl == std::string::npos || nl < 3) return;
    const bool request = w[0] == 'Q';
    const int mode = w[2] - '0';
    const std::string block = w.substr(nl + 1);
    const bool relaxed = mode != 0;

    std::vector<Field> fields;
    const bool simple = splitSimple(block, fields);

    // ---- reference ----
    std::vector<std::string> strictVals; // canonical decimal or "" (invalid) per item, strict reading (OWS only)
    std::vector<std::string> lenientVals; // same with VT/FF treated as whitespace
    bool listLike = false, emptyItem = false, vtff = false, te = false, quoted = false;
    int clFields = 0;
    std::string invalidKinds;
    for (const auto &f : fields) {
        if (ieq(f.name, "Transfer-Encoding")) te = true;
        if (!ieq(f.name, "Content-Length")) continue;
        ++clFields;
        for (char c : f.value) { if (isVtFf(c)) vtff = true; if (c == '"' || c == '\\') quoted = true; }
        std::vector<std::string> items;
        if (f.value.find(',') == std::string::npos) items.push_back(f.value);
        else {
            listLike = true;
            size_t p = 0;
            while (p <= f.value.size()) {
                size_t q = f.value.find(',', p);
                if (q == std::string::npos) q = f.value.size();
                const std::string it = f.value.substr(p, q - p);
                if (trimWsp(it).empty()) emptyItem = true; else items.push_back(it);
                p = q + 1;
            }
        }
        for (const auto &it : items) {
            const std::string s = trimOws(it), l = trimWsp(it);
            strictVals.push_back(allDigits(s) ? canon(s) : "");
            lenientVals.push_back(allDigits(l) ? canon(l) : "");
            if (!allDigits(s)) invalidKinds += s.empty() ? 'e' : (s[0] == '+' || s[0] == '-') ? 's' : isdigit((unsigned char)s[0]) ? 't' : 'g';
            else if (canon(s).empty()) invalidKinds += 'h';
        }
    }
    bool anyInvalid = false, allEqual = true, anyInvalidLenient = false, allEqualLenient = true;
    for (const auto &v : strictVals) { if (v.empty()) anyInvalid = true; if (v != strictVals[0]) allEqual = false; }
    for (const auto &v : lenientVals) { if (v.empty()) anyInvalidLenient = true; if (v != lenientVals[0]) allEqualLenient = false; }
    const size_t nvals = strictVals.size();

    // ---- Squid ----
    const int savedRelaxed = Config.onoff.relaxed_header_parser;
    Config.onoff.relaxed_header_parser = mode == 0 ? 0 : mode == 1 ? 1 : -1;
    std::vector<char> buf(block.begin(), block.end()); // the relaxed parser edits the buffer in place
    buf.push_back('\0');
    bool accepted = false, hasCl = false, conflicting = false;
    int64_t got = -1;
    int clEntries = 0;
    {
        HttpHeader hdr(request ? hoRequest : hoReply);
        Http::ContentLengthInterpreter clen;
        accepted = hdr.parse(buf.data(), block.size(), clen) != 0;
        if (accepted) {
            hasCl = hdr.has(Http::HdrType::CONTENT_LENGTH);
            conflicting = hdr.conflictingContentLength();
            if (hasCl) got = hdr.getInt64(Http::HdrType::CONTENT_LENGTH);
            HttpHeaderPos pos = HttpHeaderInitPos;
            while (const HttpHeaderEntry *e = hdr.getEntry(&pos)) if (e->id == Http::HdrType::CONTENT_LENGTH) ++clEntries;
        }
    }
    Config.onoff.relaxed_header_parser = savedRelaxed;
    ctx.ubsanGate({"ContentLengthInterpreter", "HttpHeaderTools.cc"});

    if (!simple) { ctx.grey(); return; }

    const std::string where = std::string(request ? "request" : "reply") + (relaxed ? " relaxed" : " strict") + " block '" + vh::show(block) + "'";
    const std::string mkey = relaxed ? "relaxed" : "strict";

    // N1: a Content-Length that is used equals every written value, which are all valid decimals
    if (accepted && hasCl) {
        const std::string g = got >= 0 ? std::to_string(got) : "";
        if (nvals == 0)
            ctx.violation("used:without-field:" + mkey, where + ": Content-Length " + std::to_string(got) + " is present after parsing although no value was written");
        else if (anyInvalidLenient)
            ctx.violation("used:despite-invalid-value:" + mkey, where + ": Content-Length " + std::to_string(got) + " is used although a value is not a non-negative decimal that fits 63 bits");
        else if (!allEqualLenient)
            ctx.violation("used:despite-conflict:" + mkey, where + ": Content-Length " + std::to_string(got) + " is used although the values differ");
        else if (g != lenientVals[0])
            ctx.violation("used:wrong-value:" + mkey, where + ": Content-Length " + std::to_string(got) + " is used but the field says " + lenientVals[0]);
        else if (nvals > 1 && !relaxed)
            ctx.violation("used:duplicates-in-strict", where + ": duplicate Content-Length values accepted by the strict parser");
        if (clEntries > 1) ctx.count("accepted_with_several_content_length_entries");
    }

    std::string feat = std::string(request ? "Q" : "P") + std::to_string(mode) + "f" + std::to_string(std::min(clFields, 3)) + "v" + std::to_string(std::min<size_t>(nvals, 4));
    std::sort(invalidKinds.begin(), invalidKinds.end());
    invalidKinds.erase(std::unique(invalidKinds.begin(), invalidKinds.end()), invalidKinds.end());
    feat += "i" + invalidKinds + (allEqual ? "=" : "!") + (listLike ? "L" : "") + (emptyItem ? "E" : "") + (te ? "T" : "");
    feat += !accepted ? "/rej" : conflicting ? "/conf" : hasCl ? "/len" : "/none";
    if (accepted && hasCl) feat += got == 0 ? "0" : got < 1000 ? "s" : got < (1LL << 32) ? "m" : got == INT64_MAX ? "X" : "l";

    if (vtff || quoted) { ctx.grey(); return; } // VT/FF as whitespace, quoted-string list splitting: only N1 is judged
    ctx.feature(feat, clFields > 0);

    if (te) { // Transfer-Encoding overrides Content-Length; the statement does not cover it beyond N1
        ctx.count("with_transfer_encoding");
        return;
    }

    const bool listInStrict = listLike && !relaxed;
    const bool expectedBad = nvals > 0 && (anyInvalid || !allEqual || (nvals > 1 && !relaxed));
    if (expectedBad) {
        // N2: bad framing: the block is rejected, or it is flagged and carries no Content-Length
        if (accepted && !(conflicting && !hasCl))
            ctx.violation(std::string("bad-framing-not-flagged:") + (anyInvalid ? "invalid-value" : !allEqual ? "conflict" : "duplicate-strict") + ":" + mkey,
                          where + ": expected rejection or conflictingContentLength() without Content-Length; accepted=" + std::to_string(accepted) + " conflicting=" + std::to_string(conflicting) + " hasCL=" + std::to_string(hasCl) + " value=" + std::to_string(got));
        return;
    }
    if (nvals == 0) {
        if (clFields == 0) {
            if (!accepted) ctx.violation("rejected:no-content-length:" + mkey, where + ": block without Content-Length rejected");
            else if (hasCl || conflicting) ctx.violation("spurious:no-content-length:" + mkey, where + ": no Content-Length written but hasCL=" + std::to_string(hasCl) + " conflicting=" + std::to_string(conflicting));
        } else ctx.count("content_length_field_without_values_not_judged"); // "Content-Length: ," and the like
        return;
    }
    // unambiguous: one valid value, or equal duplicates in relaxed mode
    if (listInStrict || emptyItem) { // list syntax in strict mode / empty list elements: acceptance is not demanded
        ctx.count("list_syntax_acceptance_not_judged");
        return;
    }
    if (!accepted)
        ctx.violation("rejected:unambiguous:" + mkey, where + ": all Content-Length values are the valid decimal " + strictVals[0] + " but the block was rejected");
    else if (conflicting || !hasCl)
        ctx.violation("not-used:unambiguous:" + mkey, where + ": all Content-Length values are the valid decimal " + strictVals[0] + " but conflicting=" + std::to_string(conflicting) + " hasCL=" + std::to_string(hasCl));
    // (a used value different from the written one is N1's)
}

// ---- generator -----------------------------------------------------------------------------

std::string genValid(Rng &r) {
    std::string s;
    switch (r.below(8)) {
    case 0: s = "0"; break;
    case 1: case 2: s = std::to_string(r.below(100000)); break;
    case 3: s = std::to_string(INT64_MAX - (int64_t)r.below(3)); break;
    case 4: s = std::to_string((1LL << (31 + r.below(3))) + r.range(-1, 1)); break;
    case 5: s = std::to_string(r.next() >> (1 + r.below(63))); break;
    default: s = std::to_string(r.below(20)); break;
    }
    if (r.chance(1, 10)) s.insert(0, 1 + r.below(25), '0');
    return s;
}

std::string genInvalid(Rng &r, const std::string &base) {
    switch (r.below(16)) {
    case 0: return "+" + base;
    case 1: return "-" + base;
    case 2: return base + r.pick({"x", "a", ";", ".0", "e1", "%", "\x80", " 5", "\t5", ";q=1", "L", "_"});
    case 3: return r.pick({"x", "abc", "0x", " ", "#", "\xd9\xa5"}) + base;
    case 4: return "";
    case 5: return "0x" + base;
    case 6: return r.pick({"9223372036854775808", "9223372036854775809", "18446744073709551615", "18446744073709551616", "99999999999999999999", "340282366920938463463374607431768211456"});
    case 7: { // 2^64 + base: wraps to base in 64-bit arithmetic
        unsigned __int128 v = ((unsigned __int128)1 << 64) + (unsigned __int128)(r.coin() ? strtoull(base.substr(0, 18).c_str(), nullptr, 10) : r.below(100));
        std::string s; while (v) { s.insert(s.begin(), (char)('0' + (int)(v % 10))); v /= 10; } return s; }
    case 8: return base + " " + base;
    case 9: return "-0";
    case 10: return "\"" + base + "\"";
    case 11: return base + r.pick({"\v", "\f", "\v\f"});  // grey
    case 12: return std::string(r.pick({"\v", "\f"})) + base; // grey
    case 13: return "1e3";
    case 14: return r.from("0123456789", 20 + r.below(15));
    default: return "--" + base;
    }
}

std::string gen(Rng &r) {
    const bool request = r.coin();
    const int mode = (int)r.below(5) < 2 ? 0 : (r.chance(1, 6) ? 2 : 1);
    const std::string base = genValid(r);
    auto same = [&]() { // another spelling of the same number
        std::string s = base;
        if (r.chance(1, 4)) s.insert(0, 1 + r.below(3), '0');
        return s;
    };
    auto other = [&]() {
        if (r.coin()) { std::string s = base; s.back() = (char)('0' + (s.back() - '0' + 1 + r.below(9)) % 10); return s; }
        if (r.chance(1, 3)) return base + "0";
        return genValid(r);
    };
    auto item = [&]() -> std::string {
        const unsigned k = (unsigned)r.below(100);
        return k < 70 ? same() : k < 85 ? other() : genInvalid(r, base);
    };
    size_t ncl;
    { const unsigned k = (unsigned)r.below(100); ncl = k < 8 ? 0 : k < 50 ? 1 : k < 85 ? 2 : k < 96 ? 3 : 4 + r.below(3); }
    std::vector<std::string> lines;
    for (size_t i = 0; i < ncl; ++i) {
        std::string v;
        if (r.chance(1, 4)) { // list
            const size_t n = 1 + r.below(4);
            for (size_t j = 0; j < n; ++j) { if (j) v += r.pick({",", ", ", " ,", " , ", ",,", ",\t"}); v += item(); }
            if (r.chance(1, 6)) v += ",";
            if (r.chance(1, 8)) v.insert(0, ",");
            if (n == 1 && v.find(',') == std::string::npos) v += ",";
        } else v = item();
        const char *name = r.pick({"Content-Length", "Content-Length", "Content-Length", "content-length", "CONTENT-LENGTH", "Content-length", "cOnTeNt-LeNgTh"});
        lines.push_back(std::string(name) + ":" + r.pick({" ", " ", " ", "", "  ", "\t"}) + v + r.pick({"", "", "", " ", "\t", "  "}));
    }
    const size_t nother = r.below(4);
    for (size_t i = 0; i < nother; ++i)
        lines.push_back(r.pick({"Host: example.com", "Accept: */*", "X-Content-Length: 7", "Content-Length-X: 9", "Content-Type: text/plain", "Connection: close", "X-A: 1, 2", "Content-Lengt: 3", "Date: Mon, 01 Jan 2024 00:00:00 GMT"}));
    if (r.chance(1, 15)) lines.push_back(r.pick({"Transfer-Encoding: chunked", "Transfer-Encoding: gzip", "transfer-encoding: chunked", "Transfer-Encoding: gzip, chunked"}));
    // shuffle
    for (size_t i = lines.size(); i > 1; --i) std::swap(lines[i - 1], lines[r.below(i)]);
    std::string block;
    const bool lfOnly = r.chance(1, 12);
    for (const auto &l : lines) block += l + (lfOnly ? "\n" : "\r\n");
    if (r.chance(3, 4)) block += lfOnly ? "\n" : "\r\n"; // with or without the terminating empty line
    for (auto &c : block) if (c == '\0') c = 'x';
    return std::string(request ? "Q " : "P ") + std::to_string(mode) + "\n" + block;
}

int drive(Ctx &ctx) {
    if (!ctx.replaying && ctx.shard == 0) {
        // small scope: every pair of values from a small dictionary, as two fields and as one list, all owners/modes
        static const std::vector<std::string> dict = {"0", "5", "05", "6", "50", "+5", "-5", "5x", "", " ", "9223372036854775807", "9223372036854775808", "18446744073709551621", "5 5", "0x5", "5.0", "-0", "x"};
        long n = 0;
        for (const char *own : {"Q", "P"}) for (int mode = 0; mode < 3; ++mode) {
            const std::string head = std::string(own) + " " + std::to_string(mode) + "\n";
            for (const auto &a : dict) {
                for (const std::string &b : {"Host: h\r\nContent-Length: " + a + "\r\n\r\n", "Content-Length:" + a + "\r\n"}) { const std::string w = head + b; ctx.begin(w); run(ctx, w); ++n; }
                for (const auto &b : dict) {
                    for (const std::string &blk : {"Content-Length: " + a + "\r\nContent-Length: " + b + "\r\n\r\n", "Content-Length: " + a + "," + b + "\r\n\r\n", "Content-Length: " + a + "\r\nX: y\r\ncontent-length: " + b + " , " + a + "\r\n\r\n"}) {
                        const std::string w = head + blk; ctx.begin(w); run(ctx, w); ++n;
                    }
                }
            }
        }
        ctx.count("small_scope_cases_enumerated", n);
    }
    return vh::Loop(ctx, gen, run);
}

} // namespace

VH_REGISTER(C26, drive, "Content-Length interpretation via HttpHeader::parse vs statement reference");
