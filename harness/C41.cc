// C41 Domain-name ACLs match exactly the configured domain sets.
// Differential oracle: the real ACLDomainData::parse() (ConfigParser fed, one or several parse() calls,
// i.e. Acl::SplayInserter<char*>::Merge with its duplicate/subset handling) and ACLDomainData::match()
// (splay lookup with matchDomainName) against the statement's set model:
//   host matches list  <=>  exists value v: (v = "." d  and (host == d or host ends with "." d)) or host == v
// all comparisons ASCII case-insensitive.
#include "squid.h"
#include "vh.h"
#include "acl/DomainData.h"
#include "ConfigParser.h"

#include <algorithm>

using vh::Ctx;
using vh::Rng;

namespace {

// case encoding:
//   line 1: probe host names separated by ' ', or "@3"/"@4" = every name of 1..3 labels over the
//           small-scope label alphabet of 3 / 4 labels
//   every further line: one configuration line (space separated values) = one parse() call
struct Case { std::vector<std::string> hosts; std::vector<std::string> lines; };

const char *const SmallLabels[] = {"a", "b", "b-a", "b_a"};

std::vector<std::string> smallNames(int nlabels) {
    std::vector<std::string> r;
    for (int i = 0; i < nlabels; ++i) r.push_back(SmallLabels[i]);
    size_t from = 0;
    for (int depth = 2; depth <= 3; ++depth) {
        const size_t to = r.size();
        for (size_t k = from; k < to; ++k) for (int i = 0; i < nlabels; ++i) r.push_back(std::string(SmallLabels[i]) + "." + r[k]);
        from = to;
    }
    return r;
}

std::vector<std::string> split(const std::string &s, const char *seps) {
    std::vector<std::string> r;
    size_t i = 0;
    while (i < s.size()) {
        size_t j = s.find_first_of(seps, i);
        if (j == std::string::npos) j = s.size();
        if (j > i) r.push_back(s.substr(i, j - i));
        i = j + 1;
    }
    return r;
}

bool dec(const std::string &w, Case &c) {
    const auto nl = w.find('\n');
    if (nl == std::string::npos) return false;
    const std::string head = w.substr(0, nl);
    if (head == "@3") c.hosts = smallNames(3);
    else if (head == "@4") c.hosts = smallNames(4);
    else c.hosts = split(head, " ");
    size_t i = nl + 1;
    while (i <= w.size()) {
        auto j = w.find('\n', i);
        if (j == std::string::npos) j = w.size();
        c.lines.push_back(w.substr(i, j - i));
        i = j + 1;
    }
    return true;
}

std::string lower(std::string s) { for (auto &ch : s) if (ch >= 'A' && ch <= 'Z') ch = (char)(ch + 32); return s; }

bool alphabetOk(const std::string &s) {
    for (unsigned char ch : s) if (!(isalnum(ch) || ch == '-' || ch == '.' || ch == '_')) return false;
    return true;
}

// a host name in the sense of the statement: non-empty labels over the restricted alphabet
bool isName(const std::string &s) {
    if (s.empty() || s.size() > 250 || !alphabetOk(s)) return false;
    if (s.front() == '.' || s.back() == '.') return false;
    return s.find("..") == std::string::npos;
}

bool isValue(const std::string &s) { return !s.empty() && isName(s[0] == '.' ? s.substr(1) : s); }

bool endsWith(const std::string &s, const std::string &suf) { return s.size() >= suf.size() && s.compare(s.size() - suf.size(), suf.size(), suf) == 0; }

// statement: dotted value matches that domain and all its subdomains; any other value matches only itself
bool valueMatches(const std::string &v, const std::string &h) { // both lower case
    if (v[0] == '.') return h == v.substr(1) || endsWith(h, v);
    return h == v;
}

bool refMatch(const std::vector<std::string> &vals, const std::string &host) {
    const std::string h = lower(host);
    for (const auto &v : vals) if (valueMatches(v, h)) return true;
    return false;
}

std::string enc(const std::string &hosts, const std::vector<std::string> &lines) {
    std::string w = hosts;
    for (const auto &l : lines) { w += "\n"; w += l; }
    return w;
}

std::string randCase(Rng &r, std::string s) { for (auto &ch : s) if (isalpha((unsigned char)ch) && r.chance(1, 3)) ch = (char)toupper(ch); return s; }

std::string genLabel(Rng &r, std::vector<std::string> &pool) {
    if (!pool.empty() && r.chance(3, 5)) {
        const std::string &b = pool[r.below(pool.size())];
        switch (r.below(12)) {
        case 0: return "x-" + b;
        case 1: return "x_" + b;
        case 2: return "0" + b;
        case 3: return b + "-x";
        case 4: return "x" + b;
        case 5: return "-" + b;
        case 6: return "_" + b;
        default: return b;
        }
    }
    std::string l;
    if (r.chance(1, 2)) l = r.pick({"a", "b", "foo", "com", "x", "example", "net", "www", "co", "uk", "1", "10", "a1", "_tcp", "xn--p1ai", "z", "-", "_", "0", "A", "Foo"});
    else l = r.from("ab-_0z", 1 + r.below(3));
    pool.push_back(l);
    return l;
}

std::string genName(Rng &r, std::vector<std::string> &pool, std::vector<std::string> &names) {
    std::string n;
    if (!names.empty() && r.chance(1, 2)) {
        const std::string &b = names[r.below(names.size())];
        switch (r.below(6)) {
        case 0: n = genLabel(r, pool) + "." + b; break;                       // subdomain
        case 1: { auto d = b.find('.'); n = d == std::string::npos ? b : b.substr(d + 1); break; } // parent
        case 2: n = r.pick({"x-", "x_", "0", "x", "-", "_"}) + b; break;       // same suffix, longer first label
        case 3: n = genLabel(r, pool) + "." + genLabel(r, pool) + "." + b; break;
        case 4: { n = b; n[r.below(n.size())] = r.pick({"a", "b", "-", "_", "0", "z"})[0]; break; }
        default: n = b; break;
        }
    } else {
        const int k = 1 + (int)r.below(4);
        for (int i = 0; i < k; ++i) { if (i) n += "."; n += genLabel(r, pool); }
    }
    if (!isName(n)) n = "a";
    names.push_back(n);
    return n;
}

std::string gen(Rng &r) {
    std::vector<std::string> pool, names, vals;
    const size_t n = r.chance(1, 40) ? 0 : 1 + r.below(r.chance(1, 5) ? 30 : 8);
    for (size_t i = 0; i < n; ++i) {
        std::string v;
        if (!vals.empty() && r.chance(1, 6)) {
            v = vals[r.below(vals.size())];                                    // duplicate, maybe with toggled dot
            if (r.coin()) v = v[0] == '.' ? v.substr(1) : "." + v;
        } else {
            v = genName(r, pool, names);
            if (r.chance(2, 5)) v = "." + v;
        }
        vals.push_back(r.chance(1, 4) ? randCase(r, v) : v);
    }
    if (r.chance(1, 200) && !vals.empty()) vals[r.below(vals.size())] = r.pick({".", "..a", "a.", "a..b", ".a."}); // out of scope -> grey
    const size_t nl = 1 + (r.chance(1, 3) ? r.below(3) : 0);
    std::vector<std::string> lines(nl);
    for (auto &v : vals) { std::string &l = lines[r.below(nl)]; if (!l.empty()) l += r.chance(1, 8) ? "\t" : " "; l += v; }

    std::set<std::string> hs;
    for (const auto &v0 : vals) {
        const std::string root = lower(v0[0] == '.' ? v0.substr(1) : v0);
        if (!isName(root)) continue;
        hs.insert(root);
        if (r.coin()) hs.insert(genLabel(r, pool) + "." + root);
        if (r.chance(1, 3)) hs.insert(genLabel(r, pool) + "." + genLabel(r, pool) + "." + root);
        if (r.chance(1, 3)) hs.insert(r.pick({"x-", "x_", "0", "x", "-", "_", "a"}) + root);
        if (r.chance(1, 3)) { auto d = root.find('.'); if (d != std::string::npos) hs.insert(root.substr(d + 1)); }
        if (r.chance(1, 4)) hs.insert(root + r.pick({"x", "-", "0", ".a", ".com"}));
        if (r.chance(1, 4)) { std::string m = root; m[r.below(m.size())] = r.pick({"a", "b", "-", "_", "0", "z"})[0]; hs.insert(m); }
        if (r.chance(1, 6) && root.size() > 1) hs.insert(root.substr(1));
    }
    for (int i = 0; i < 3; ++i) hs.insert(genName(r, pool, names));
    std::string hosts;
    for (const auto &h : hs) {
        if (!isName(h)) continue;
        if (!hosts.empty()) hosts += " ";
        hosts += r.chance(1, 5) ? randCase(r, h) : h;
    }
    if (r.chance(1, 300)) hosts += " .a";   // out of scope host -> that probe is grey
    return enc(hosts, lines);
}

void run(Ctx &ctx, const std::string &w) {
    Case c;
    if (!dec(w, c)) return;
    std::vector<std::string> vals; // lower-cased, in configuration order
    for (const auto &l : c.lines) {
        if (l.size() > 8000) { ctx.grey(); return; }
        for (const auto &t : split(l, " \t")) {
            if (!isValue(t)) { ctx.grey(); return; } // degenerate value (empty labels, "."...): statement does not settle it
            vals.push_back(lower(t));
        }
    }

    ACLDomainData data;
    for (const auto &l : c.lines) {
        char *line = xstrdup(l.c_str());
        ConfigParser::SetCfgLine(line);
        data.parse();
        ConfigParser::SetCfgLine(nullptr); // drops the parser's token copies; the line itself stays ours
        xfree(line);
    }

    long matched = 0, judged = 0;
    for (const auto &h : c.hosts) {
        if (!isName(h)) { ctx.count("grey_hosts"); continue; }
        const bool exp = refMatch(vals, h);
        const bool got = data.match(h.c_str());
        ++judged;
        if (got) ++matched;
        if (got != exp) {
            // classify coarsely by what kind of value decides
            bool dotted = false, plain = false;
            for (const auto &v : vals) (v[0] == '.' ? dotted : plain) = true;
            const std::string mix = dotted && plain ? "mixed-list" : dotted ? "dotted-list" : "plain-list";
            ctx.violation(std::string(exp ? "domain:missed:" : "domain:false-match:") + mix,
                          "match(\"" + vh::show(h) + "\") returned " + (got ? "true" : "false") + " but per the statement the list " + (exp ? "matches" : "does not match") + " it");
        }
    }
    // every match() splays the tree: ask again in reverse order (lookup must not depend on tree shape)
    for (auto it = c.hosts.rbegin(); it != c.hosts.rend(); ++it) {
        if (!isName(*it)) continue;
        const bool exp = refMatch(vals, *it);
        if (data.match(it->c_str()) != exp)
            ctx.violation(std::string("domain:second-pass:") + (exp ? "missed" : "false-match"), "second lookup of \"" + vh::show(*it) + "\" disagrees with the statement (expected " + (exp ? "match" : "no match") + ")");
    }
    ctx.count("matches_compared", 2 * judged);
    if (data.match(nullptr)) ctx.violation("domain:null-host", "match(nullptr) returned true");
    if (data.empty() != vals.empty()) ctx.violation("domain:empty", "empty() disagrees with the number of configured values");

    if (vals.empty()) { ctx.feature("empty", false); return; }
    // feature: relations between the configured values and their order, not the names
    int ndot = 0, dup = 0, coverFwd = 0, coverBack = 0, suffixOnly = 0, dotPlainSame = 0;
    for (size_t i = 0; i < vals.size(); ++i) {
        if (vals[i][0] == '.') ++ndot;
        for (size_t j = 0; j < i; ++j) {
            const std::string &a = vals[j], &b = vals[i]; // a configured before b
            const std::string ra = a[0] == '.' ? a.substr(1) : a, rb = b[0] == '.' ? b.substr(1) : b;
            if (a == b) ++dup;
            else if (ra == rb) ++dotPlainSame;
            else if (valueMatches(a, rb)) ++coverFwd;    // earlier value covers later
            else if (valueMatches(b, ra)) ++coverBack;   // later value covers earlier
            else if (endsWith(ra, rb) || endsWith(rb, ra)) ++suffixOnly; // e.g. x-foo.com vs foo.com
        }
    }
    auto b = [](long v) { return v == 0 ? 0 : v == 1 ? 1 : v < 4 ? 2 : v < 10 ? 3 : 4; };
    const std::string feat = "n" + std::to_string(b((long)vals.size())) + "." + std::to_string(b(ndot)) + "d" + std::to_string(b(dup)) + "s" + std::to_string(b(dotPlainSame)) +
                             "f" + std::to_string(b(coverFwd)) + "b" + std::to_string(b(coverBack)) + "x" + std::to_string(b(suffixOnly)) +
                             "l" + std::to_string(c.lines.size()) + "m" + std::to_string(b(matched)) + "u" + std::to_string(b(judged - matched));
    ctx.feature(feat);
}

// exhaustive small scope: every sequence of `len` values (each name of 1..3 labels over the label
// alphabet, with and without leading dot), probed with every name of the scope
void exhaustive(Ctx &ctx, int nlabels, int len) {
    const std::vector<std::string> names = smallNames(nlabels);
    std::vector<std::string> vals;
    for (const auto &n : names) { vals.push_back(n); vals.push_back("." + n); }
    const long V = (long)vals.size();
    long total = 1;
    for (int i = 0; i < len; ++i) total *= V;
    const std::string head = nlabels == 3 ? "@3" : "@4";
    long n = 0;
    for (long idx = ctx.shard; idx < total; idx += ctx.nshards) {
        long x = idx;
        const bool perLine = len > 1 && (idx / ctx.nshards) % 3 == 2;
        std::string body;
        for (int i = 0; i < len; ++i) { if (i) body += perLine ? "\n" : " "; body += vals[x % V]; x /= V; }
        const std::string w = head + "\n" + body;
        ctx.begin(w); run(ctx, w); ++n;
    }
    ctx.count("exhaustive_lists_labels" + std::to_string(nlabels) + "_len" + std::to_string(len), n);
}

int drive(Ctx &ctx) {
    if (!ctx.replaying) {
        exhaustive(ctx, 3, 1);
        exhaustive(ctx, 3, 2);                 // 78^2 = 6 084 lists x 39 hosts
        exhaustive(ctx, 4, 2);                 // 168^2 = 28 224 lists x 84 hosts
        exhaustive(ctx, 3, 3);                 // 78^3 = 474 552 lists x 39 hosts
        if (ctx.thorough) exhaustive(ctx, 4, 3); // 168^3 = 4 741 632 lists x 84 hosts
        ctx.exhaustive = true;
    }
    return vh::Loop(ctx, gen, run);
}

} // namespace

VH_REGISTER(C41, drive, "ACLDomainData parse/match vs dotted-suffix set model (exhaustive 3-label scope + random lists)");
