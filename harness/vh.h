// vharness core: seeded generators, verdict accumulation, JSON result, sanitizer hooks.
// Every property driver is one .cc that registers `int run(vh::Ctx&)` with VH_REGISTER.
#ifndef VERIF_VH_H
#define VERIF_VH_H

#include <cstdint>
#include <cstring>
#include <string>
#include <vector>
#include <set>
#include <map>
#include <functional>

namespace vh {

struct Rng {
    uint64_t s[4];
    explicit Rng(uint64_t seed = 1) { reseed(seed); }
    void reseed(uint64_t seed) {
        uint64_t z = seed + 0x9E3779B97F4A7C15ULL;
        for (int i = 0; i < 4; ++i) {
            z += 0x9E3779B97F4A7C15ULL;
            uint64_t x = z;
            x = (x ^ (x >> 30)) * 0xBF58476D1CE4E5B9ULL;
            x = (x ^ (x >> 27)) * 0x94D049BB133111EBULL;
            s[i] = x ^ (x >> 31);
        }
    }
    static uint64_t rotl(uint64_t x, int k) { return (x << k) | (x >> (64 - k)); }
    uint64_t next() {
        const uint64_t r = rotl(s[1] * 5, 7) * 9, t = s[1] << 17;
        s[2] ^= s[0]; s[3] ^= s[1]; s[1] ^= s[2]; s[0] ^= s[3]; s[2] ^= t; s[3] = rotl(s[3], 45);
        return r;
    }
    // uniform in [0,n)
    uint64_t below(uint64_t n) { return n ? next() % n : 0; }
    // uniform in [lo,hi]
    int64_t range(int64_t lo, int64_t hi) { return lo + (int64_t)below((uint64_t)(hi - lo) + 1); }
    bool chance(unsigned num, unsigned den) { return below(den) < num; }
    bool coin() { return next() & 1; }
    template <class T> const T &pick(const std::vector<T> &v) { return v[below(v.size())]; }
    const char *pick(std::initializer_list<const char *> l) { auto it = l.begin(); std::advance(it, below(l.size())); return *it; }
    std::string bytes(size_t n) { std::string r(n, '\0'); for (auto &c : r) c = (char)next(); return r; }
    std::string from(const std::string &alphabet, size_t n) { std::string r(n, '\0'); for (auto &c : r) c = alphabet[below(alphabet.size())]; return r; }
};

struct Violation {
    std::string key;     // stable identity used for known-findings matching
    std::string witness; // exact case string accepted by --replay
    std::string detail;  // human-readable: expected vs observed
};

struct Ctx {
    std::string prop;
    uint64_t seed = 1;
    long cases = 1000;
    int shard = 0, nshards = 1;
    bool thorough = false;
    bool replaying = false;
    std::string replay; // case to replay (raw bytes)
    Rng rng;

    // results
    long evaluations = 0;
    long greys = 0;
    long trivial = 0;
    std::set<uint64_t> features;                 // distinct non-trivial feature vectors (hashed)
    std::vector<std::string> samples;            // a few literal cases
    std::vector<Violation> violations;           // capped
    long violationCount = 0;
    std::map<std::string, long> counters;        // named observation counters (events seen etc.)
    std::vector<std::string> notes;
    bool exhaustive = false;

    // per-case protocol --------------------------------------------------
    // call before executing a case: records it for crash attribution and sampling
    void begin(const std::string &witness);
    // declare the case's feature vector; trivial cases are counted but not "distinct non-trivial"
    void feature(uint64_t h, bool nontrivial = true) { if (nontrivial) { if (features.size() < 400000) features.insert(h); } else ++trivial; }
    void feature(const std::string &s, bool nontrivial = true) { feature(hash(s), nontrivial); }
    void grey() { ++greys; }
    void count(const std::string &name, long n = 1) { counters[name] += n; }
    void note(const std::string &n) { if (notes.size() < 50) notes.push_back(n); }
    void violation(const std::string &key, const std::string &detail);
    // returns the number of UBSan reports raised since begin(); fills last kind/location
    int ubsanSince(std::string *where = nullptr) const;
    // convenience: if UBSan fired during this case inside a file whose path contains one of `files`,
    // record a violation "ubsan:<kind>:<file>:<line>"
    void ubsanGate(std::initializer_list<const char *> files);

    static uint64_t hash(const std::string &s) { uint64_t h = 1469598103934665603ULL; for (unsigned char c : s) { h ^= c; h *= 1099511628211ULL; } return h; }
    static uint64_t mix(uint64_t a, uint64_t b) { a ^= b + 0x9E3779B97F4A7C15ULL + (a << 6) + (a >> 2); return a; }

    std::string current; // witness of the running case
    long ubsanAtBegin = 0;
};

typedef int (*Driver)(Ctx &);
void Register(const char *prop, Driver d, const char *what);
struct Registrar { Registrar(const char *p, Driver d, const char *w) { Register(p, d, w); } };
#define VH_REGISTER(prop, fn, what) static vh::Registrar vh_reg_##prop(#prop, fn, what)

// helpers ---------------------------------------------------------------
std::string hexEncode(const std::string &raw);
std::string hexDecode(const std::string &hex);
std::string jsonEscape(const std::string &raw); // printable JSON string content (\uXXXX for non-ASCII bytes)
std::string show(const std::string &raw, size_t max = 200); // C-like escaped, truncated

// one-time initialisation of the Squid runtime for in-process use (memory pools, debug off, Config defaults)
void InitSquid();

// drives the standard loop: for i in this shard's share of ctx.cases: c = gen(rng); run(c)
// In replay mode runs exactly ctx.replay once.
int Loop(Ctx &ctx, const std::function<std::string(Rng &)> &gen, const std::function<void(Ctx &, const std::string &)> &run);

} // namespace vh

#endif
