// C22 Request-line acceptance matches the HTTP grammar.
// Differential oracle: Http::One::RequestParser (one-shot, strict and relaxed) against a request-line
// recogniser written from RFC 9112 section 3 / RFC 3986 section 2 plus the tolerance table that the
// parser documents (RFC 1945 simple-request for GET; relaxed: delimiter runs of SP/HTAB/VT/FF/CR,
// bare LF and repeated CR line ends, leading empty lines, "unwise"/8-bit/whitespace target bytes,
// case-insensitive registered methods). Strict: accept <=> grammar. Relaxed: strict-valid => accepted,
// accepted => inside the tolerance table. Extracted method/target/version == the grammar's fields.
#include "squid.h"
#include "vh.h"
#include "http/one/RequestParser.h"
#include "http/RequestMethod.h"
#include "http/StatusCode.h"
#include "sbuf/SBuf.h"
#include "SquidConfig.h"

using vh::Ctx;
using vh::Rng;

namespace {

// ---------------------------------------------------------------- case encoding: "<relaxed> <origin>\n<input bytes>"
struct Case { int relaxed = 0; char origin = 'g'; std::string payload; };
std::string enc(const Case &c) { return std::to_string(c.relaxed) + " " + std::string(1, c.origin) + "\n" + c.payload; }
bool dec(const std::string &w, Case &c) {
    const auto nl = w.find('\n');
    if (nl == std::string::npos || nl > 40) return false;
    char o = 0;
    if (sscanf(w.substr(0, nl).c_str(), "%d %c", &c.relaxed, &o) != 2) return false;
    c.origin = o;
    c.payload = w.substr(nl + 1);
    return true;
}

// ---------------------------------------------------------------- reference

struct RefQ {
    enum Kind { Accept, Reject, NeedMore, Grey } kind = Reject;
    bool optional = false;  // acceptance not demanded (target outside the four request-target forms, or a relaxed tolerance)
    bool tolerance = false; // uses a relaxed-only tolerance
    std::string method, target, why;
    int major = 0, minor = 0;
};

bool isTchar(unsigned char c) { return isalnum(c) || (c && strchr("!#$%&'*+-.^_`|~", c)); }
bool isUriChar(unsigned char c) { return isalnum(c) || (c && strchr(":/?#[]@!$&'()*+,;=-._~%", c)); }
bool isRelaxedDelim(unsigned char c) { return c == ' ' || c == '\t' || c == '\v' || c == '\f' || c == '\r'; }
bool isRelaxedTargetChar(unsigned char c) { return isUriChar(c) || isRelaxedDelim(c) || (c && strchr("\"\\|^<>`{}", c)) || c >= 0x80; }

template <class P> bool all(const std::string &s, P p) { for (unsigned char c : s) if (!p(c)) return false; return true; }

// "HTTP/" 1*DIGIT "." 1*DIGIT at the very end of s; returns its length or 0
size_t versionSuffix(const std::string &s, int &major, int &minor, bool &multi) {
    size_t e = s.size(), i = e;
    while (i > 0 && isdigit((unsigned char)s[i - 1])) --i;
    const size_t minDigits = e - i;
    if (!minDigits || i == 0 || s[i - 1] != '.') return 0;
    const size_t dot = i - 1;
    i = dot;
    while (i > 0 && isdigit((unsigned char)s[i - 1])) --i;
    const size_t majDigits = dot - i;
    if (!majDigits || i < 5 || s.compare(i - 5, 5, "HTTP/") != 0) return 0;
    multi = majDigits > 1 || minDigits > 1;
    major = s[i] - '0';
    minor = s[dot + 1] - '0';
    return e - (i - 5);
}

// is the target one of the four RFC 9112 3.2 forms, cleanly (so that acceptance can be demanded)?
bool cleanTarget(const std::string &t) {
    if (t.empty()) return false;
    for (size_t i = 0; i < t.size(); ++i) {
        if (t[i] == '%' && !(i + 2 < t.size() + 0 && isxdigit((unsigned char)t[i + 1]) && isxdigit((unsigned char)t[i + 2]))) return false;
        if (t[i] == '#' || t[i] == '[' || t[i] == ']') return false;
    }
    if (t == "*") return true;
    if (t[0] == '/') return true; // origin-form
    const size_t colon = t.find(':');
    if (colon == std::string::npos || colon == 0) return false;
    if (isalpha((unsigned char)t[0]) && t.compare(colon, 3, "://") == 0) { // absolute-form with authority
        for (size_t i = 0; i < colon; ++i) if (!(isalnum((unsigned char)t[i]) || strchr("+-.", t[i]))) return false;
        return t.size() > colon + 3 && t[colon + 3] != '/';
    }
    // authority-form host:port
    if (t.find_first_of("/?@") != std::string::npos) return false;
    if (colon + 1 >= t.size()) return false;
    for (size_t i = colon + 1; i < t.size(); ++i) if (!isdigit((unsigned char)t[i])) return false;
    for (size_t i = 0; i < colon; ++i) if (!(isalnum((unsigned char)t[i]) || t[i] == '-' || t[i] == '.')) return false;
    return true;
}

const size_t MethodLimit = 32;   // Squid's documented method length limit
const size_t UriGreyAbove = 21000; // Squid's URI limit is 21845; beyond ~21000 is "outside its limits"

RefQ fin(RefQ r, RefQ::Kind k, const char *why) { r.kind = k; r.why = why; return r; }

RefQ refStrict(const std::string &I) {
    RefQ r;
    const size_t p = I.find('\n');
    if (p == std::string::npos) return fin(r, RefQ::NeedMore, "no-lf");
    if (p == 0 || I[p - 1] != '\r') return fin(r, RefQ::Reject, "line-end-not-crlf");
    const std::string L = I.substr(0, p - 1);
    size_t m = 0;
    while (m < L.size() && isTchar(L[m])) ++m;
    if (!m) return fin(r, RefQ::Reject, "method");
    if (m > MethodLimit) return fin(r, RefQ::Grey, "method-length-limit");
    r.method = L.substr(0, m);
    if (m == L.size() || L[m] != ' ') return fin(r, RefQ::Reject, "method-delimiter");
    const std::string R = L.substr(m + 1);
    if (R.size() > UriGreyAbove) return fin(r, RefQ::Grey, "uri-length-limit");
    bool multi = false;
    const size_t vs = versionSuffix(R, r.major, r.minor, multi);
    // HTTP-version = "HTTP/" DIGIT "." DIGIT: a multi-digit token after a delimiter is neither a valid version nor
    // (because of the SP) part of a simple-request target => not a request-line at all. Glued to the target it is
    // ambiguous like "GET /xHTTP/1.1" (grey).
    if (vs && multi) return (R.size() > vs && R[R.size() - vs - 1] == ' ') ? fin(r, RefQ::Reject, "multi-digit-version") : fin(r, RefQ::Grey, "multi-digit-version");
    if (vs && R.size() > vs && R[R.size() - vs - 1] == ' ') {
        r.target = R.substr(0, R.size() - vs - 1);
        if (r.target.empty()) return fin(r, RefQ::Reject, "no-target");
        if (!all(r.target, isUriChar)) return fin(r, RefQ::Reject, "target-charset");
        if (r.major == 0) return fin(r, RefQ::Grey, "explicit-major-0"); // HTTP/0.9 grey zone (DESIGN 7.1)
        r.optional = !cleanTarget(r.target);
        return fin(r, RefQ::Accept, "request-line");
    }
    // RFC 1945 simple-request: GET SP target CRLF
    if (R.empty()) return fin(r, RefQ::Reject, "no-target");
    if (!all(R, isUriChar)) return fin(r, RefQ::Reject, vs ? "version-delimiter" : "target-charset-or-version");
    // a version token glued to the target ("POST /xHTTP/0.9") is neither a request-line nor (not GET) a simple-request
    if (r.method != "GET") return fin(r, RefQ::Reject, vs && r.major == 0 ? "glued-http0-version" : vs ? "glued-version" : "no-version");
    if (R.find("HTTP/") != std::string::npos) return fin(r, RefQ::Grey, "looks-like-version"); // GET /xHTTP/1.1
    r.major = 0; r.minor = 9;
    r.target = R;
    r.optional = !cleanTarget(R);
    return fin(r, RefQ::Accept, "simple-request");
}

RefQ refRelaxed(const std::string &I) {
    RefQ r;
    const size_t n = I.size();
    size_t s = 0;
    while (s < n && (I[s] == '\n' || (I[s] == '\r' && s + 1 < n && I[s + 1] == '\n'))) ++s;
    if (s) r.tolerance = true;
    const size_t p = I.find('\n', s);
    if (p == std::string::npos) return fin(r, RefQ::NeedMore, "no-lf");
    std::string L = I.substr(s, p - s);
    size_t crs = 0;
    while (!L.empty() && L.back() == '\r') { L.pop_back(); ++crs; }
    if (crs != 1) r.tolerance = true;
    size_t m = 0;
    while (m < L.size() && isTchar(L[m])) ++m;
    if (!m) return fin(r, RefQ::Reject, "method");
    if (m > MethodLimit) return fin(r, RefQ::Grey, "method-length-limit");
    r.method = L.substr(0, m);
    size_t d = m;
    while (d < L.size() && isRelaxedDelim(L[d])) ++d;
    if (d == m) return fin(r, RefQ::Reject, "method-delimiter");
    if (d - m > 1 || L[m] != ' ') r.tolerance = true;
    const std::string R = L.substr(d);
    if (R.size() > UriGreyAbove) return fin(r, RefQ::Grey, "uri-length-limit");
    if (R.empty()) return fin(r, RefQ::Reject, "no-target");
    const bool isGet = strcasecmp(r.method.c_str(), "GET") == 0;
    bool multi = false;
    const size_t vs = versionSuffix(R, r.major, r.minor, multi);
    if (vs) {
        if (multi) {
            const char prev = R.size() > vs ? R[R.size() - vs - 1] : 0;
            return (prev && isRelaxedDelim(prev)) ? fin(r, RefQ::Reject, "multi-digit-version") : fin(r, RefQ::Grey, "multi-digit-version");
        }
        std::string before = R.substr(0, R.size() - vs);
        size_t d2 = 0;
        while (!before.empty() && isRelaxedDelim(before.back())) { before.pop_back(); ++d2; }
        if (!d2) return isGet && all(R, isRelaxedTargetChar) ? fin(r, RefQ::Grey, "looks-like-version") : fin(r, RefQ::Reject, r.major == 0 ? "glued-http0-version" : "glued-version");
        if (before.empty()) return fin(r, RefQ::Reject, "no-target");
        if (!all(before, isRelaxedTargetChar)) return fin(r, RefQ::Reject, "target-charset");
        if (r.major == 0) return fin(r, RefQ::Grey, "explicit-major-0");
        if (d2 > 1 || R[before.size()] != ' ' || !all(before, isUriChar)) r.tolerance = true;
        r.target = before;
        r.optional = r.tolerance || !cleanTarget(before);
        return fin(r, RefQ::Accept, "request-line");
    }
    r.major = 0; r.minor = 9;
    if (!all(R, isRelaxedTargetChar)) return fin(r, RefQ::Reject, "target-charset-or-version");
    if (!isGet) return fin(r, RefQ::Reject, "no-version");
    if (R.find("HTTP/") != std::string::npos) return fin(r, RefQ::Grey, "looks-like-version");
    for (unsigned char c : R) if (isRelaxedDelim(c)) return fin(r, RefQ::Grey, "whitespace-in-simple-request");
    if (!all(R, isUriChar)) r.tolerance = true;
    r.target = R;
    r.optional = r.tolerance || !cleanTarget(R);
    return fin(r, RefQ::Accept, "simple-request");
}

// ---------------------------------------------------------------- Squid side

struct Got {
    enum Kind { LineAccepted, LineRejected, Undecided } kind = Undecided;
    bool whole = false; // parse() returned true
    int status = 0;
    std::string method, target;
    int major = 0, minor = 0;
    bool threw = false;
    std::string what;
};

Got runSquid(const Case &c) {
    Got g;
    Config.onoff.relaxed_header_parser = c.relaxed;
    Config.maxRequestHeaderSize = 64 * 1024;
    Http1::RequestParserPointer hp = new Http1::RequestParser(false);
    try {
        const SBuf in(c.payload.data(), c.payload.size());
        const bool ok = hp->parse(in);
        g.whole = ok;
        g.status = (int)hp->parseStatusCode;
        if (ok || g.status == Http::scOkay || g.status == Http::scRequestHeaderFieldsTooLarge) g.kind = Got::LineAccepted;
        else if (!hp->needsMoreData()) g.kind = Got::LineRejected;
        const SBuf &img = hp->method().image();
        g.method.assign(img.rawContent(), img.length());
        g.target.assign(hp->requestUri().rawContent(), hp->requestUri().length());
        g.major = hp->messageProtocol().major;
        g.minor = hp->messageProtocol().minor;
    } catch (const std::exception &e) {
        g.threw = true; g.what = e.what();
    } catch (...) {
        g.threw = true; g.what = "non-std exception";
    }
    Config.onoff.relaxed_header_parser = 0;
    return g;
}

// ---------------------------------------------------------------- judge

std::string methodClass(const std::string &m) {
    static const char *known[] = {"GET", "POST", "PUT", "HEAD", "CONNECT", "OPTIONS", "DELETE", "TRACE", "PATCH", "PRI"};
    for (auto k : known) { if (m == k) return "K"; if (strcasecmp(m.c_str(), k) == 0) return "k"; }
    return all(m, [](unsigned char c) { return isalpha(c) != 0; }) ? "a" : m.empty() ? "-" : "x";
}
std::string targetClass(const std::string &t) {
    if (t.empty()) return "-";
    if (t == "*") return "*";
    if (t[0] == '/') return cleanTarget(t) ? "/" : "/?";
    if (t.find("://") != std::string::npos) return cleanTarget(t) ? "abs" : "abs?";
    return cleanTarget(t) ? "auth" : "other";
}

void run(Ctx &ctx, const std::string &w) {
    Case c;
    if (!dec(w, c)) return;
    const bool relaxed = c.relaxed != 0;
    const RefQ strict = refStrict(c.payload);
    const RefQ ref = relaxed ? refRelaxed(c.payload) : strict;
    const Got got = runSquid(c);
    ctx.ubsanGate({"RequestParser.cc", "one/Parser.cc", "parser/Tokenizer.cc", "RequestMethod.cc", "CharacterSet.cc"});
    if (got.threw) { ctx.violation("exception-escaped-parse", "RequestParser::parse threw: " + got.what); return; }

    const char *gk = got.kind == Got::LineAccepted ? "accepted" : got.kind == Got::LineRejected ? "rejected" : "undecided";
    ctx.count(std::string("squid_line_") + gk);
    if (ref.kind == RefQ::Grey || (relaxed && strict.kind == RefQ::Grey && ref.kind != RefQ::Reject)) {
        ctx.count("grey_" + (ref.kind == RefQ::Grey ? ref.why : strict.why));
        ctx.grey();
        return;
    }
    const std::string feat = std::string(relaxed ? "R" : "S") + c.origin + " ref" + std::to_string((int)ref.kind) + ":" + ref.why + (ref.optional ? "?" : "") + (ref.tolerance ? "t" : "") +
                             ">" + gk + std::to_string(got.status) + " m" + methodClass(ref.method) + " t" + targetClass(ref.target) + " v" + std::to_string(ref.major) + "." + std::to_string(ref.minor) +
                             (relaxed && strict.kind == RefQ::Accept ? " sv" : "");
    ctx.feature(feat, !c.payload.empty());

    const std::string where = " [mode " + std::string(relaxed ? "relaxed" : "strict") + "; reference " + std::to_string((int)ref.kind) + " " + ref.why + " method='" + vh::show(ref.method, 40) + "' target='" + vh::show(ref.target, 60) +
                              "' version " + std::to_string(ref.major) + "." + std::to_string(ref.minor) + "; squid " + gk + " status " + std::to_string(got.status) + " method='" + vh::show(got.method, 40) +
                              "' target='" + vh::show(got.target, 60) + "' version " + std::to_string(got.major) + "." + std::to_string(got.minor) + "]";

    if (ref.kind == RefQ::NeedMore) {
        if (got.kind != Got::Undecided) ctx.violation(std::string("no-lf-but-decided:") + gk, "input without a complete request line was " + std::string(gk) + where);
        return;
    }
    if (got.kind == Got::Undecided) {
        // the statement speaks of acceptance only: an invalid line that is neither accepted nor (yet) rejected is an observation
        if (ref.kind == RefQ::Accept && !ref.optional) ctx.violation("valid-line-undecided", "a complete grammar-valid request line is present but the parser waits" + where);
        else { ctx.count("invalid_line_undecided"); if (ref.kind == RefQ::Reject) ctx.count("invalid_line_undecided:" + ref.why); }
        return;
    }

    if (got.kind == Got::LineAccepted) {
        if (ref.kind == RefQ::Reject) {
            ctx.violation(std::string(relaxed ? "relaxed" : "strict") + ":accepted-outside-grammar:" + ref.why, "request line outside the grammar" + std::string(relaxed ? " and the documented tolerances" : "") + " was accepted" + where);
            return;
        }
        // fields
        const bool sameMethod = relaxed ? strcasecmp(got.method.c_str(), ref.method.c_str()) == 0 : got.method == ref.method;
        if (!sameMethod) ctx.violation("wrong-field:method", "extracted method differs from the grammar's field" + where);
        else if (got.target != ref.target) ctx.violation("wrong-field:target", "extracted request-target differs from the grammar's field" + where);
        else if (got.major != ref.major || got.minor != ref.minor) ctx.violation("wrong-field:version", "extracted version differs from the grammar's field" + where);
        return;
    }
    // rejected
    if (ref.kind == RefQ::Accept && !ref.optional)
        ctx.violation(std::string(relaxed ? "relaxed" : "strict") + ":rejected-valid:" + ref.why, "grammar-valid request line was rejected" + where);
    else if (relaxed && strict.kind == RefQ::Accept && !strict.optional)
        ctx.violation("relaxed:rejected-strict-valid:" + strict.why, "a request line valid in the strict grammar was rejected in relaxed mode" + where);
    else if (ref.kind == RefQ::Accept)
        ctx.count("optional_acceptance_declined");
}

// ---------------------------------------------------------------- generators

const std::string TcharAlphabet = "!#$%&'*+-.^_`|~0123456789abcdefghijklmnopqrstuvwxyzABCDEFGHIJKLMNOPQRSTUVWXYZ";

std::string genMethod(Rng &r) {
    switch (r.below(10)) {
    case 0: return r.from(TcharAlphabet, 1 + r.below(12));
    case 1: return r.from("ABCDEFGHIJKLMNOPQRSTUVWXYZ", r.pick(std::vector<int>{1, 2, 16, 31, 32, 33, 34, 40}));
    case 2: return r.pick({"get", "Get", "post", "oPTIONS", "connect"});
    case 3: return r.pick({"POST", "PUT", "HEAD", "DELETE", "PATCH", "TRACE", "PRI", "PROPFIND", "MKCOL", "PURGE", "NONE", "METHOD_OTHER", "."});
    case 4: return "OPTIONS";
    case 5: return "CONNECT";
    default: return "GET";
    }
}

std::string genTarget(Rng &r, const std::string &method) {
    auto seg = [&]() {
        std::string s;
        const size_t k = r.below(8);
        for (size_t i = 0; i < k; ++i) {
            switch (r.below(10)) {
            case 0: s += "%" + r.from("0123456789abcdefABCDEF", 2); break;
            case 1: s += r.pick({"!", "$", "&", "'", "(", ")", "*", "+", ",", ";", "=", ":", "@", "-", ".", "_", "~"}); break;
            default: s += r.from("abcdefghijklmnopqrstuvwxyz0123456789", 1); break;
            }
        }
        return s;
    };
    if (method == "OPTIONS" && r.coin()) return "*";
    if (method == "CONNECT" && r.chance(3, 4)) return r.pick({"example.com:443", "a:1", "10.0.0.1:8080", "host-x.example:65535"});
    switch (r.below(12)) {
    case 0: return "/";
    case 1: { std::string s = r.pick({"http://", "https://", "ftp://", "urn:"}); s += r.pick({"example.com", "h", "127.0.0.1", "[::1]", "user@host", "example.com:8080"}); if (r.coin()) s += "/" + seg(); return s; }
    case 2: return "/" + seg() + "?" + seg() + "=" + seg();
    case 3: return r.pick({"/a#frag", "/%zz", "/%", "/a%2", "foo", "//", "/[x]", "?", "#", ":", "a:b", "/HTTP/", "/xHTTP/1.1", "HTTP/1.1", "/?HTTP/1.0", "*x"});
    case 4: return "/" + r.from("abcdefghijklmnopqrstuvwxyz/", 20 + r.below(200));
    default: { std::string s; const int k = 1 + (int)r.below(3); for (int i = 0; i < k; ++i) s += "/" + seg(); return s; }
    }
}

std::string genVersion(Rng &r) {
    switch (r.below(12)) {
    case 0: return "HTTP/1.0";
    case 1: return std::string("HTTP/") + (char)('0' + r.below(10)) + "." + (char)('0' + r.below(10));
    case 2: return r.pick({"HTTP/2.0", "HTTP/9.9", "HTTP/0.9", "HTTP/0.0", "HTTP/1.2", "HTTP/10.1", "HTTP/1.10", "HTTP/11", "HTTP/1.", "HTTP/.1", "HTTP/", "http/1.1", "HTTP/1,1", "HTTPS/1.1", "FOO/1.0",
                          "HTTP/1.1x", "HTTP/-1.1", "HTTP/1.-1", "HTTP /1.1", "HTTP/ 1.1", "ICY/1.1", "TTP/1.1"});
    default: return "HTTP/1.1";
    }
}

std::string genTail(Rng &r) { return r.chance(3, 5) ? "\r\n" : r.pick({"Host: x\r\n\r\n", "Host: example.com\r\nAccept: */*\r\n\r\n", "\r\nbody", "A: b\r\n\r\nGET / HTTP/1.1\r\n\r\n"}); }

std::string genLine(Rng &r, bool tolerant) {
    const std::string method = genMethod(r);
    std::string t = genTarget(r, method);
    std::string line;
    const bool simple = r.chance(1, 8);
    if (!tolerant) {
        line = method + " " + t;
        if (!simple) line += " " + genVersion(r);
        return line + "\r\n";
    }
    auto delims = [&]() { std::string d; const int k = 1 + (int)r.below(3); for (int i = 0; i < k; ++i) d += r.pick({" ", "\t", "\v", "\f", "\r", " "}); return d; };
    if (r.chance(1, 3)) t.insert(r.below(t.size() + 1), r.pick({"\"", "\\", "|", "^", "<", ">", "`", "{", "}", "\x80", "\xff", "\xc3\xa9", " ", "\t", " x "}));
    if (r.chance(1, 4)) line = r.pick({"\r\n", "\n", "\r\n\r\n", "\n\n\r\n", "\r\n\n"});
    line += method + (r.coin() ? " " : delims()) + t;
    if (!simple) line += (r.coin() ? " " : delims()) + genVersion(r);
    line += r.pick({"\r\n", "\n", "\r\r\n", "\r\r\r\n", "\r\n"});
    return line;
}

std::string mutate(Rng &r, std::string s, size_t span) {
    if (s.empty()) return s;
    if (span > s.size()) span = s.size();
    const size_t at = r.below(span ? span : 1);
    static const std::vector<std::string> dict = {" ", "\t", "\r", "\n", "\v", "\f", "\x01", "\x7f", "\x80", "0", "9", "/", ".", "H", "%", "\"", "\\", ":", "*", "\r\n", "  "};
    switch (r.below(4)) {
    case 0: s[at] = (char)r.next(); break;
    case 1: s.insert(at, r.coin() ? std::string(1, (char)r.next()) : r.pick(dict)); break;
    case 2: s.erase(at, 1); break;
    default: s.replace(at, 1, r.pick(dict)); break;
    }
    return s;
}

std::string gen(Rng &r) {
    Case c;
    c.relaxed = r.coin() ? 1 : 0;
    if (r.chance(1, 40)) c.relaxed = -1;
    const unsigned sel = (unsigned)r.below(100);
    std::string line;
    if (sel < 30) { c.origin = 'g'; line = genLine(r, false); }
    else if (sel < 45) { c.origin = 't'; line = genLine(r, true); }
    else if (sel < 85) { c.origin = 'm'; line = genLine(r, r.chance(1, 4)); line = mutate(r, line, line.size()); }
    else if (sel < 92) { c.origin = 'M'; line = genLine(r, r.chance(1, 4)); line = mutate(r, mutate(r, line, line.size()), line.size()); }
    else if (sel < 96) { c.origin = 'L'; // length limits
        const std::string m = r.coin() ? "GET" : r.from("ABCDEFGHIJ", 30 + r.below(6));
        line = m + " /" + std::string(r.pick(std::vector<int>{100, 1000, 20000, 21843, 21844, 21845, 21846, 30000}) + r.range(-2, 2), 'a') + (r.coin() ? " HTTP/1.1" : "") + "\r\n"; }
    else { c.origin = 'j'; line = r.coin() ? r.bytes(1 + r.below(30)) + "\r\n" : r.from("GET / HTP1.\r\n\t", 1 + r.below(24)); }
    c.payload = line + genTail(r);
    return enc(c);
}

int drive(Ctx &ctx) {
    if (!ctx.replaying) {
        // exhaustive small scope: all 256 byte values substituted / inserted, and every deletion, at every
        // position of base request lines, both modes
        static const char *bases[] = {"GET / HTTP/1.1\r\n", "GET /\r\n", "OPTIONS * HTTP/1.0\r\n", "CONNECT a:1 HTTP/1.1\r\n", "POST http://h/p?q=%41 HTTP/1.1\r\n", "GET  /a b\tHTTP/1.1\r\r\n",
                                      "\r\nget /x HTTP/1.1\n", "X-Y_z~ /%7e;a=b,c HTTP/2.0\r\n", "GET /xHTTP/1.1 HTTP/1.1\r\n", "HEAD //h/ HTTP/0.9\r\n", "GET /\xc3\xa9|{} HTTP/1.1\r\n", "PUT /a HTTP/1.1\n"};
        const int nb = ctx.thorough ? 12 : 6;
        long cnt = 0, idx = 0;
        for (int b = 0; b < nb; ++b) {
            const std::string base = bases[b];
            for (size_t pos = 0; pos <= base.size(); ++pos) for (int op = 0; op < 3; ++op) for (int v = 0; v < 256; ++v) {
                if (op == 2 && v) continue;
                if (op != 1 && pos == base.size()) continue;
                if ((idx++ % ctx.nshards) != ctx.shard) continue;
                std::string s = base;
                if (op == 0) s[pos] = (char)v; else if (op == 1) s.insert(pos, 1, (char)v); else s.erase(pos, 1);
                for (int relaxed = 0; relaxed < 2; ++relaxed) {
                    Case c; c.relaxed = relaxed; c.origin = 'e'; c.payload = s + "Host: x\r\n\r\n";
                    const std::string w = enc(c);
                    ctx.begin(w); run(ctx, w); ++cnt;
                }
            }
        }
        ctx.count("single_byte_edit_cases_enumerated", cnt);
    }
    return vh::Loop(ctx, gen, run);
}

} // namespace

VH_REGISTER(C22, drive, "RequestParser request-line acceptance and fields vs RFC 9112 grammar + documented tolerance table");
