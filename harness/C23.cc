// C23 Status-line parsing is correct and segmentation-independent.
// Two oracles for Http::One::ResponseParser, driven as HttpStateData::processReplyHeader drives it
// (one parser per response; parse(inBuf); inBuf = remaining(); append the next read; parse again):
//  (A) any segmentation reports the same outcome as the one-shot parse;
//  (B) the one-shot outcome agrees with an RFC 9112 section 4 status-line recogniser written from the
//      property statement (3-digit status 100..599, HTTP/1.x or ICY magic, otherwise HTTP/0.9 body).
#include "squid.h"
#include "vh.h"
#include "http/one/ResponseParser.h"
#include "http/StatusCode.h"
#include "sbuf/SBuf.h"
#include "SquidConfig.h"

using vh::Ctx;
using vh::Rng;

namespace {

// ---------------------------------------------------------------- case encoding
// "<relaxed> <limit> <splits>\n<payload>"; splits: "-" one shot only, "A" every single cut point plus
// byte-by-byte, "B" byte-by-byte, or ascending comma separated cut offsets
struct Case {
    int relaxed = 0;
    long limit = 65536;
    std::string splits = "A";
    std::string payload;
};

std::string enc(const Case &c) { return std::to_string(c.relaxed) + " " + std::to_string(c.limit) + " " + c.splits + "\n" + c.payload; }

bool dec(const std::string &w, Case &c) {
    const auto nl = w.find('\n');
    if (nl == std::string::npos || nl > 4000) return false;
    char sp[4096];
    if (sscanf(w.substr(0, nl).c_str(), "%d %ld %4000s", &c.relaxed, &c.limit, sp) != 3) return false;
    c.splits = sp;
    c.payload = w.substr(nl + 1);
    if (c.limit < 1) c.limit = 1;
    return true;
}

std::vector<size_t> parseCuts(const std::string &spec, size_t n) {
    std::vector<size_t> cuts;
    size_t last = 0;
    const char *p = spec.c_str();
    while (*p) {
        char *end = nullptr;
        unsigned long v = strtoul(p, &end, 10);
        if (end == p) break;
        if (v > n) v = n;
        if (v < last) v = last;
        cuts.push_back(v);
        last = v;
        if (*end != ',') break;
        p = end + 1;
    }
    return cuts;
}

// ---------------------------------------------------------------- Squid side

struct Out {
    enum Kind { NeedMore, Accept, Reject } kind = NeedMore;
    int parseStatus = 0;
    int proto = 0; // AnyP::ProtocolType
    unsigned major = 0, minor = 0;
    int status = 0;
    std::string reason, mime;
    size_t consumed = 0;
    bool threw = false;
    std::string what;
};

std::string str(const SBuf &b) { return std::string(b.rawContent(), b.length()); }

Out runSquid(const Case &c, const std::vector<size_t> &cuts) {
    Out o;
    Config.onoff.relaxed_header_parser = c.relaxed;
    Config.maxReplyHeaderSize = (size_t)c.limit;
    Http1::ResponseParserPointer hp = new Http1::ResponseParser;
    SBuf inBuf;
    size_t fed = 0;
    try {
        for (size_t si = 0; si <= cuts.size(); ++si) {
            const size_t upto = si < cuts.size() ? cuts[si] : c.payload.size();
            if (upto == fed) continue; // a read of zero bytes is EOF, not a delivery
            inBuf.append(c.payload.data() + fed, upto - fed);
            fed = upto;
            const bool ok = hp->parse(inBuf);
            inBuf = hp->remaining(); // sync the buffers after parsing
            if (hp->needsMoreData()) continue;
            o.kind = ok ? Out::Accept : Out::Reject;
            break;
        }
    } catch (const std::exception &e) {
        o.kind = Out::Reject; o.threw = true; o.what = e.what();
    } catch (...) {
        o.kind = Out::Reject; o.threw = true; o.what = "non-std exception";
    }
    o.parseStatus = (int)hp->parseStatusCode;
    o.proto = (int)hp->messageProtocol().protocol;
    o.major = hp->messageProtocol().major;
    o.minor = hp->messageProtocol().minor;
    o.status = (int)hp->messageStatus();
    o.reason = str(hp->reasonPhrase());
    o.mime = str(hp->mimeHeader());
    o.consumed = fed - inBuf.length();
    Config.onoff.relaxed_header_parser = 0;
    Config.maxReplyHeaderSize = 64 * 1024;
    return o;
}

const char *kindName(Out::Kind k) { return k == Out::NeedMore ? "needmore" : k == Out::Accept ? "accept" : "reject"; }

std::string describe(const Out &o) {
    std::string s = kindName(o.kind);
    if (o.kind == Out::Reject) s += " parseStatus=" + std::to_string(o.parseStatus);
    if (o.kind == Out::Accept) s += " proto=" + std::to_string(o.proto) + "/" + std::to_string(o.major) + "." + std::to_string(o.minor) + " status=" + std::to_string(o.status) +
                                        " reason='" + vh::show(o.reason, 40) + "' mime='" + vh::show(o.mime, 60) + "' consumed=" + std::to_string(o.consumed);
    if (o.threw) s += " EXCEPTION " + o.what;
    return s;
}

// outcome equality per the statement; leftovers and fields are outcomes only for accepted messages
// (after a rejection the connection is closed and the parser's buffer is not an outcome)
const char *differ(const Out &a, const Out &b) {
    if (a.kind != b.kind) {
        if (a.kind == Out::Accept || b.kind == Out::Accept) return (a.kind == Out::Reject || b.kind == Out::Reject) ? "accept-vs-reject" : "accept-vs-needmore";
        return "reject-vs-needmore";
    }
    if (a.kind == Out::Reject) return a.parseStatus != b.parseStatus ? "reject-status" : nullptr;
    if (a.kind == Out::Accept) {
        if (a.proto != b.proto || a.major != b.major || a.minor != b.minor) return "version";
        if (a.status != b.status) return "status";
        if (a.reason != b.reason) return "reason";
        if (a.mime != b.mime) return "header-block";
        if (a.consumed != b.consumed) return "consumed";
    }
    return nullptr;
}

// ---------------------------------------------------------------- reference (oracle B)

struct RefR {
    enum Kind { NeedMore, Accept, Reject, V09, Grey } kind = NeedMore;
    bool tolerated = false; // uses a documented relaxed-mode tolerance: acceptance optional, fields still checked
    bool icy = false;
    int minor = 0, status = 0;
    std::string reason;
    size_t errPos = 0, lineEnd = 0, headEnd = 0;
    std::string why;
};

bool isPhraseChar(unsigned char c) { return c == '\t' || c == ' ' || (c >= 0x21 && c <= 0x7e) || c >= 0x80; }
bool isRelaxedDelim(unsigned char c) { return c == ' ' || c == '\t' || c == '\v' || c == '\f' || c == '\r'; }
bool isProperPrefix(const std::string &in, const char *magic) { return in.size() < strlen(magic) && memcmp(in.data(), magic, in.size()) == 0; }
bool startsWith(const std::string &in, const char *m) { return in.size() >= strlen(m) && memcmp(in.data(), m, strlen(m)) == 0; }

RefR refParse(const std::string &in, const bool relaxed, const long limit) {
    RefR r;
    const size_t n = in.size();
    auto fin = [&](RefR::Kind k, size_t at, const char *why) -> RefR { r.kind = k; r.errPos = at; r.why = why; return r; };
    if (n == 0) return fin(RefR::NeedMore, 0, "empty");
    size_t i;
    if (startsWith(in, "HTTP/1.")) i = 7;
    else if (startsWith(in, "ICY ")) { r.icy = true; i = 4; }
    else if (isProperPrefix(in, "HTTP/1.") || isProperPrefix(in, "ICY ")) return fin(RefR::NeedMore, n, "magic-prefix");
    else if (startsWith(in, "HTTP/")) return fin(RefR::Grey, 5, "http-other-major"); // "an HTTP prefix" that is not Squid's HTTP/1. magic
    else if (startsWith(in, "ICY")) return fin(RefR::Grey, 3, "icy-without-sp");
    else return fin(RefR::V09, 0, "no-magic");

    // one delimiter: SP by the grammar; relaxed mode documents SP / HTAB / VT / FF / CR
    auto delim = [&](size_t at) -> int { // 1 ok, 0 need more, -1 bad
        if (at >= n) return 0;
        if (in[at] == ' ') return 1;
        if (relaxed && isRelaxedDelim(in[at])) { r.tolerated = true; return 1; }
        return -1;
    };
    if (!r.icy) {
        if (i >= n) return fin(RefR::NeedMore, n, "version");
        if (!isdigit((unsigned char)in[i])) return fin(RefR::Reject, i, "version-digit");
        r.minor = in[i] - '0';
        ++i;
        const int d = delim(i);
        if (d == 0) return fin(RefR::NeedMore, n, "version-delim");
        if (d < 0) return fin(RefR::Reject, i, "version-delim");
        ++i;
    }
    int value = 0;
    for (int k = 0; k < 3; ++k, ++i) {
        if (i >= n) return fin(RefR::NeedMore, n, "status");
        if (!isdigit((unsigned char)in[i])) return fin(RefR::Reject, i, "status-digits"); // fewer than 3 digits
        value = value * 10 + (in[i] - '0');
    }
    r.status = value;
    // the statement: only 100..599 may ever be accepted
    if (value < 100 || value > 599) return fin(RefR::Reject, i - 1, "status-range");
    if (i >= n) return fin(RefR::NeedMore, n, "status-delim");
    if (isdigit((unsigned char)in[i])) return fin(RefR::Reject, i, "status-4-digits");
    if (in[i] == ' ') ++i;
    else if (relaxed && isRelaxedDelim(in[i])) { r.tolerated = true; ++i; }
    else if (in[i] == '\r' || in[i] == '\n') {
        // "200" directly followed by the line end is outside the grammar but a widespread leniency; the
        // statement only bounds what may be accepted, so this is judged only if accepted (empty reason)
        r.tolerated = true;
        r.why = "no-sp-after-status";
    } else
        return fin(RefR::Reject, i, "status-delim");
    const size_t rs = i;
    while (i < n && isPhraseChar(in[i])) ++i;
    r.reason.assign(in, rs, i - rs);
    if (i >= n) return fin(RefR::NeedMore, n, "reason");
    if (in[i] == '\r') {
        if (i + 1 >= n) return fin(RefR::NeedMore, n, "line-end");
        if (in[i + 1] != '\n') return fin(RefR::Reject, i + 1, "bare-cr-in-status-line");
        i += 2;
    } else if (in[i] == '\n') {
        if (!relaxed) return fin(RefR::Reject, i, "bare-lf-status-line");
        r.tolerated = true; // documented: relaxed parser accepts bare LF line ends
        i += 1;
    } else
        return fin(RefR::Reject, i, "reason-charset");
    r.lineEnd = i;

    // header block: ends at the first empty line. Bare LF / CR oddities are located differently by
    // tolerant parsers and are outside this property: not judged for completeness.
    size_t end = 0;
    bool odd = false;
    if (i + 1 < n && in[i] == '\r' && in[i + 1] == '\n') end = i + 2;
    for (size_t k = i; k < n && !end; ++k) {
        if (in[k] == '\n' && (k == 0 || in[k - 1] != '\r')) { odd = true; break; }
        if (k + 3 < n && in[k] == '\r' && in[k + 1] == '\n' && in[k + 2] == '\r' && in[k + 3] == '\n') end = k + 4;
    }
    if (odd) { r.tolerated = true; r.why = "bare-lf-in-header-block"; r.kind = RefR::NeedMore; r.headEnd = 0; return r; }
    // reply_header_max_size is configuration, not part of the statement: near or over it is not judged
    if ((long)(end ? end : n) + 64 >= limit) { r.tolerated = true; r.why = "near-size-limit"; r.kind = RefR::NeedMore; return r; }
    if (!end) return fin(RefR::NeedMore, n, "header-block");
    r.headEnd = end;
    r.kind = RefR::Accept;
    return r;
}

// ---------------------------------------------------------------- judge

int lenBucket(size_t n) { return n == 0 ? 0 : n < 16 ? 1 : n < 48 ? 2 : n < 256 ? 3 : 4; }

void run(Ctx &ctx, const std::string &w) {
    Case c;
    if (!dec(w, c)) return;
    const size_t n = c.payload.size();
    const Out one = runSquid(c, {});
    const RefR ref = refParse(c.payload, c.relaxed != 0, c.limit);
    long splitRuns = 0;

    if (one.threw) ctx.violation("exception-escaped-parse", "ResponseParser::parse threw: " + one.what);

    // (A) segmentation independence
    std::string segDiff;
    auto trySplit = [&](const std::vector<size_t> &cuts, const std::string &label) {
        if (!segDiff.empty()) return;
        const Out o = runSquid(c, cuts);
        ++splitRuns;
        if (const char *d = differ(one, o)) {
            segDiff = d;
            ctx.violation(std::string("split-differs:") + d, "delivery " + label + ": " + describe(o) + " ; one-shot: " + describe(one));
        }
    };
    if (c.splits == "A") {
        for (size_t p = 1; p < n; ++p) trySplit({p}, "cut@" + std::to_string(p));
        if (n > 2) { std::vector<size_t> all; for (size_t p = 1; p < n; ++p) all.push_back(p); trySplit(all, "byte-by-byte"); }
    } else if (c.splits == "B") {
        std::vector<size_t> all; for (size_t p = 1; p < n; ++p) all.push_back(p); trySplit(all, "byte-by-byte");
    } else if (c.splits != "-") {
        trySplit(parseCuts(c.splits, n), "cuts " + c.splits);
    }
    ctx.ubsanGate({"ResponseParser.cc", "one/Parser.cc", "parser/Tokenizer.cc", "mime_header.cc"});
    ctx.count("parser_runs", splitRuns + 1);
    ctx.count(std::string("oneshot_") + kindName(one.kind));

    // (B) grammar
    const bool gateway09 = one.kind == Out::Accept && one.consumed == 0;
    std::string feat = std::string(c.relaxed ? "R" : "S") + " ref" + std::to_string((int)ref.kind) + (ref.tolerated ? "t" : "") + ":" + ref.why + ">" + kindName(one.kind) +
                       (gateway09 ? "09" : "") + (one.kind == Out::Reject ? std::to_string(one.parseStatus) : "") + " L" + std::to_string(c.limit < 1000 ? 0 : 1) +
                       " n" + std::to_string(lenBucket(n)) + (ref.icy ? " icy" : "") + " r" + std::to_string(lenBucket(ref.reason.size())) +
                       " h" + std::to_string(ref.kind == RefR::Accept ? lenBucket(ref.headEnd - ref.lineEnd - 2) : 9) + " s" + (c.splits.size() == 1 ? c.splits : "L") +
                       (one.kind == Out::Accept ? " m" + std::to_string(one.minor) + " c" + std::to_string(one.status / 100) : "");
    if (ref.kind == RefR::Grey) { ctx.count("grey_" + ref.why); ctx.grey(); return; }
    ctx.feature(feat, n != 0);
    if (ref.tolerated) ctx.count("tolerance_" + (ref.why.empty() ? std::string("relaxed-delimiter-or-lf") : ref.why));

    const std::string where = " [reference: " + std::to_string((int)ref.kind) + " " + ref.why + " at " + std::to_string(ref.errPos) + "; squid one-shot: " + describe(one) + "]";

    // accepted as a real status line => the statement's constraints hold whatever tolerance was used
    if (one.kind == Out::Accept && !gateway09) {
        if (ref.kind == RefR::V09) { ctx.violation("accepted-status-line-without-magic", "input without HTTP/ICY magic parsed as a status line" + where); return; }
        if (ref.kind == RefR::Reject) { ctx.violation("accepted-invalid-status-line:" + ref.why, "status line outside the grammar / status range accepted" + where); return; }
        if (one.status < 100 || one.status > 599) { ctx.violation("accepted-status-out-of-range", "accepted status " + std::to_string(one.status) + where); return; }
        if (ref.lineEnd) { // the whole line was seen by the reference: fields are positional
            if (one.status != ref.status) ctx.violation("wrong-field:status", "status " + std::to_string(one.status) + " expected " + std::to_string(ref.status) + where);
            else if (!ref.icy && (one.major != 1 || (int)one.minor != ref.minor)) ctx.violation("wrong-field:version", "version minor " + std::to_string(one.minor) + " expected " + std::to_string(ref.minor) + where);
            else if (one.reason != ref.reason) ctx.violation("wrong-field:reason", "reason '" + vh::show(one.reason) + "' expected '" + vh::show(ref.reason) + "'" + where);
            else if (ref.kind == RefR::Accept && one.consumed != ref.headEnd) ctx.violation("wrong-consumed", "consumed " + std::to_string(one.consumed) + " expected " + std::to_string(ref.headEnd) + where);
        } else if (!ref.tolerated)
            ctx.violation("accepted-incomplete-head", "accepted although the status line is incomplete" + where);
    }
    if (ref.tolerated) return; // nothing else is demanded

    switch (ref.kind) {
    case RefR::V09:
        if (!gateway09) ctx.violation(std::string("no-magic-not-http09:") + kindName(one.kind), "input not starting with an HTTP/ICY prefix must be treated as an HTTP/0.9 body" + where);
        else if (one.status != 200) ctx.violation("http09-status", "HTTP/0.9 gatewayed with status " + std::to_string(one.status) + where);
        break;
    case RefR::Accept:
        if (one.kind != Out::Accept || gateway09) ctx.violation(std::string("valid-head-not-accepted:") + kindName(one.kind), "grammar-valid status line and complete header block not accepted" + where);
        break;
    case RefR::NeedMore:
        if (one.kind == Out::Accept) ctx.violation("accepted-incomplete-head", "accepted although the head is incomplete" + where);
        else if (one.kind == Out::Reject) ctx.violation("incomplete-rejected", "a proper prefix of a valid head was rejected" + where);
        break;
    case RefR::Reject:
        if (one.kind == Out::NeedMore) {
            if (ref.errPos + 2 >= n) ctx.count("invalid_near_end_needmore");
            else ctx.violation("invalid-not-rejected:" + ref.why, "invalid status line only asks for more data" + where);
        } else if (gateway09)
            ctx.violation("magic-but-http09:" + ref.why, "input starting with the HTTP/ICY magic treated as an HTTP/0.9 body" + where);
        break;
    default:
        break;
    }
}

// ---------------------------------------------------------------- generators

std::string genReason(Rng &r) {
    switch (r.below(8)) {
    case 0: return "";
    case 1: return "OK";
    case 2: return "Not Found";
    case 3: return r.pick({" ", "  leading", "trailing ", "\tTab", "a\tb", "Moved  Permanently"});
    case 4: { std::string s; const size_t k = r.below(12); for (size_t i = 0; i < k; ++i) s += r.chance(1, 5) ? (char)r.range(0x80, 0xff) : (char)r.range(0x20, 0x7e); return s; }
    case 5: return r.from("abcdefghijklmnopqrstuvwxyz ", 1 + r.below(60));
    default: return r.pick({"Found", "Internal Server Error", "Continue", "No Content", "200", "HTTP/1.1", "OK OK", "-"});
    }
}

std::string genHeaders(Rng &r, bool lf) {
    const std::string nl = lf ? "\n" : "\r\n";
    std::string s;
    const int k = (int)r.below(4);
    for (int i = 0; i < k; ++i) {
        switch (r.below(8)) {
        case 0: s += "Content-Length: " + std::to_string(r.below(1000)) + nl; break;
        case 1: s += "X-Fold: a" + nl + (r.coin() ? " " : "\t") + "b" + nl; break;
        case 2: s += r.from("abcdefghijklmnopqrstuvwxyzABCDEFGHIJKLMNOPQRSTUVWXYZ-", 1 + r.below(10)) + ":" + r.from("abc def;=,\"/0123456789", r.below(30)) + nl; break;
        case 3: s += "Server: x" + nl; break;
        case 4: if (i == 0) { s += " whitespace-preceded line" + nl; break; } // fall into default otherwise
            s += "A: b" + nl; break;
        default: s += "Date: Tue, 22 Sep 2026 00:00:00 GMT" + nl; break;
        }
    }
    return s + nl;
}

std::string genStatus(Rng &r) {
    switch (r.below(12)) {
    case 0: return r.pick({"000", "099", "600", "999", "601", "700"});
    case 1: return r.pick({"99", "2", "20", "1000", "2000", "0200", "+20", "-20", "2 0", "20x", "2e2", " 200", "0x1", ""});
    case 2: return r.pick({"100", "101", "199", "599", "500", "499", "400", "399", "300", "299"});
    case 3: return std::to_string(100 + r.below(500));
    default: return r.pick({"200", "204", "206", "301", "302", "304", "404", "503"});
    }
}

std::string genBase(Rng &r) {
    std::string s;
    const bool lf = r.chance(1, 16);
    if (r.chance(1, 10)) s = "ICY ";
    else {
        s = "HTTP/1.";
        s += r.chance(4, 5) ? (r.coin() ? "1" : "0") : std::string(1, (char)('0' + r.below(10)));
        s += " ";
    }
    s += genStatus(r);
    if (r.chance(19, 20)) s += " ";
    s += genReason(r);
    s += lf ? "\n" : "\r\n";
    s += genHeaders(r, lf && r.coin());
    if (r.chance(1, 3)) s += r.pick({"body", "<html>", "\r\n", "HTTP/1.1 200 OK\r\n\r\n", "0\r\n\r\n"});
    return s;
}

std::string genOther(Rng &r) {
    switch (r.below(10)) {
    case 0: return r.pick({"<html><body>hi</body></html>", "hello", "\r\n", "\n", " ", "\0", "H", "HT", "HTTP", "HTTP/", "HTTP/1", "HTTP/1.", "I", "IC", "ICY", "ICY "});
    case 1: return std::string(r.pick({"http/1.1 200 OK\r\n\r\n", "HTTP/2 200\r\n\r\n", "HTTP/2.0 200 OK\r\n\r\n", "HTTP/0.9 200 OK\r\n\r\n", "HTTP/11.1 200 OK\r\n\r\n", "HTTP 200 OK\r\n\r\n",
                                       "ICYX200 OK\r\n\r\n", "ICY\t200 OK\r\n\r\n", "icy 200 OK\r\n\r\n", "HTTPS/1.1 200 OK\r\n\r\n", " HTTP/1.1 200 OK\r\n\r\n", "\r\nHTTP/1.1 200 OK\r\n\r\n",
                                       "HTTP/1.1\r\n\r\n", "HTTP/1.1 \r\n\r\n", "HTTP/1.1  200 OK\r\n\r\n", "HTTP/1.1 200  OK\r\n\r\n", "HTTP/1.1 200\r\n\r\n", "HTTP/1.1 200\n\n", "HTTP/1.1\t200\tOK\r\n\r\n",
                                       "HTTP/1.1 200 OK\r\r\n\r\n", "HTTP/1.1 200 OK\n\r\n", "HTTP/1.1 200 OK\r\n\n", "HTTP/1.x 200 OK\r\n\r\n", "HTTP/1.10 200 OK\r\n\r\n"}));
    case 2: return r.bytes(1 + r.below(20));
    default: return r.from("HTPICY/1.0 2\r\n<>abc", 1 + r.below(24));
    }
}

std::string mutate(Rng &r, std::string s) {
    if (s.empty()) return s;
    const size_t firstLine = std::min(s.size(), s.find('\n') == std::string::npos ? s.size() : s.find('\n') + 2);
    const size_t at = r.chance(3, 4) ? r.below(firstLine) : r.below(s.size());
    static const std::vector<std::string> dict = {" ", "\t", "\r", "\n", "\v", "\f", "\x01", "\x7f", "\x80", "0", "9", "1", "/", ".", "H", "I", ":", "\r\n"};
    switch (r.below(4)) {
    case 0: s[at] = (char)r.next(); break;
    case 1: s.insert(at, r.coin() ? std::string(1, (char)r.next()) : r.pick(dict)); break;
    case 2: s.erase(at, 1); break;
    default: s.replace(at, 1, r.pick(dict)); break;
    }
    return s;
}

void pickDelivery(Rng &r, Case &c) {
    const size_t n = c.payload.size();
    c.relaxed = r.coin() ? 1 : 0;
    if (r.chance(1, 40)) c.relaxed = -1;
    c.limit = r.chance(3, 4) ? 65536 : 20 + (long)r.below(300);
    if (n <= 48) c.splits = "A";
    else if (r.chance(1, 4) && n <= 400) c.splits = "B";
    else {
        std::vector<size_t> cuts;
        const int k = 1 + (int)r.below(6);
        for (int i = 0; i < k; ++i) cuts.push_back(r.below(std::min<size_t>(n, r.coin() ? 40 : n) + 1));
        std::sort(cuts.begin(), cuts.end());
        c.splits.clear();
        for (size_t i = 0; i < cuts.size(); ++i) c.splits += (i ? "," : "") + std::to_string(cuts[i]);
    }
}

std::string gen(Rng &r) {
    Case c;
    const unsigned sel = (unsigned)r.below(100);
    if (sel < 35) c.payload = genBase(r);
    else if (sel < 75) c.payload = mutate(r, genBase(r));
    else if (sel < 85) { c.payload = genBase(r); c.payload.resize(r.below(c.payload.size() + 1)); }
    else if (sel < 90) c.payload = mutate(r, mutate(r, genBase(r)));
    else c.payload = genOther(r);
    pickDelivery(r, c);
    return enc(c);
}

int drive(Ctx &ctx) {
    if (!ctx.replaying) {
        // exhaustive small scope: every single-byte substitution, insertion and deletion over 0..255 at every
        // position of a few base heads, both modes, every cut point
        static const char *bases[] = {"HTTP/1.1 200 OK\r\n\r\n", "HTTP/1.0 404 Not Found\r\nA: b\r\n\r\n", "ICY 200 OK\r\n\r\n", "HTTP/1.1 100 \r\n\r\n",
                                      "HTTP/1.1 599 x\r\nA:b\r\n\r\nxy", "HTTP/1.1 200 OK\n\n", "HTTP/1.1 304 N\r\n C\r\nD: e\r\n\r\n", "HTTP/1.1 204\r\n\r\n"};
        const int nb = ctx.thorough ? 8 : 3;
        long cnt = 0, idx = 0;
        for (int b = 0; b < nb; ++b) {
            const std::string base = bases[b];
            for (size_t pos = 0; pos <= base.size(); ++pos) for (int op = 0; op < 3; ++op) for (int v = 0; v < 256; ++v) {
                if (op == 2 && v) continue;                 // one deletion per position
                if (op != 1 && pos == base.size()) continue; // only insertion at the end
                if ((idx++ % ctx.nshards) != ctx.shard) continue;
                std::string s = base;
                if (op == 0) s[pos] = (char)v; else if (op == 1) s.insert(pos, 1, (char)v); else s.erase(pos, 1);
                for (int relaxed = 0; relaxed < 2; ++relaxed) {
                    Case c; c.relaxed = relaxed; c.payload = s; c.splits = "A";
                    const std::string w = enc(c);
                    ctx.begin(w); run(ctx, w); ++cnt;
                }
            }
        }
        ctx.count("single_byte_edit_cases_enumerated", cnt);
    }
    return vh::Loop(ctx, gen, run);
}

} // namespace

VH_REGISTER(C23, drive, "ResponseParser: split == one-shot, and one-shot vs RFC 9112 status-line reference");
