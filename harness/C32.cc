// C32 HTML quoting neutralises markup and is reversible.
// Oracle: the output of the real html_quote() is scanned by a strict entity-reference recogniser (no raw
// < > " ' & outside a complete reference) and decoded by a reference entity decoder; the result must be the input.
#include "squid.h"
#include "vh.h"
#include "html/Quoting.h"

using vh::Ctx;
using vh::Rng;

namespace {

// case encoding: "Q\n<payload>" (payload is cut at its first NUL: the API takes a c-string)

const char *lenBucket(size_t n) { return n == 0 ? "0" : n == 1 ? "1" : n == 2 ? "2" : n <= 4 ? "4" : n < 16 ? "s" : n < 256 ? "m" : n < 4096 ? "l" : "x"; }

// Strict scanner+decoder. Returns false (with why/offset) when the quoted text has a raw metacharacter
// or a '&' that does not start a complete, known reference.
bool scanDecode(const std::string &q, std::string &out, std::string &why, size_t &refs) {
    out.clear();
    refs = 0;
    static const struct { const char *name; char ch; } named[] = {{"lt;", '<'}, {"gt;", '>'}, {"quot;", '"'}, {"amp;", '&'}, {"apos;", '\''}};
    for (size_t i = 0; i < q.size();) {
        const unsigned char c = q[i];
        if (c == '<' || c == '>' || c == '"' || c == '\'') { why = "raw metacharacter " + std::string(1, (char)c) + " at offset " + std::to_string(i); return false; }
        if (c != '&') { out += (char)c; ++i; continue; }
        bool matched = false;
        for (const auto &n : named) {
            const size_t l = strlen(n.name);
            if (q.compare(i + 1, l, n.name) == 0) { out += n.ch; i += 1 + l; matched = true; break; }
        }
        if (matched) { ++refs; continue; }
        if (i + 1 < q.size() && q[i + 1] == '#') {
            size_t j = i + 2;
            unsigned long v = 0;
            while (j < q.size() && q[j] >= '0' && q[j] <= '9' && j - (i + 2) < 8) { v = v * 10 + (unsigned long)(q[j] - '0'); ++j; }
            if (j > i + 2 && j < q.size() && q[j] == ';' && v >= 1 && v <= 255) { out += (char)v; i = j + 1; ++refs; continue; }
        }
        why = "raw '&' that does not start a complete character reference at offset " + std::to_string(i);
        return false;
    }
    return true;
}

void run(Ctx &ctx, const std::string &w) {
    if (w.size() < 2 || w[0] != 'Q' || w[1] != '\n') return;
    std::string x = w.substr(2);
    const auto nul = x.find('\0');
    if (nul != std::string::npos) x.resize(nul);

    char *src = (char *)malloc(x.size() + 1); // exact size: over-reads are ASan reports
    memcpy(src, x.c_str(), x.size() + 1);
    const char *quoted = html_quote(src);
    const std::string q(quoted);
    free(src);
    ctx.ubsanGate({"Quoting.cc"});

    unsigned classes = 0;
    for (unsigned char c : x) {
        if (c == '<') classes |= 1; else if (c == '>') classes |= 2; else if (c == '"') classes |= 4; else if (c == '\'') classes |= 8;
        else if (c == '&') classes |= 16; else if (c == '\n' || c == '\r' || c == '\t') classes |= 32; else if (c < 0x20 || c == 0x7f) classes |= 64;
        else if (c >= 0x80) classes |= 128; else if (c == ';' || c == '#') classes |= 256; else classes |= 512;
    }
    std::string out, why;
    size_t refs = 0;
    const bool clean = scanDecode(q, out, why, refs);
    ctx.count("entity_references", (long)refs);
    ctx.feature(std::string("Q:") + lenBucket(x.size()) + ":" + std::to_string(classes) + ":" + (refs == 0 ? "r0" : refs == x.size() ? "rall" : "rsome"), !x.empty());
    if (!clean) { ctx.violation("htmlquote:raw-metacharacter", why + "; quoted=" + vh::show(q)); return; }
    if (out != x) ctx.violation("htmlquote:decode-differs", "decoding the references of " + vh::show(q) + " gives " + vh::show(out) + " not the original " + vh::show(x));
    if (q.size() > x.size() * 6) ctx.violation("htmlquote:too-long", "quoted form longer than 6x the input");
}

std::string gen(Rng &r) {
    size_t n;
    switch (r.below(16)) {
    case 0: n = r.below(5); break;
    case 1: n = r.below(16384 + 1); break;
    case 2: n = 16384 - r.below(4); break;
    case 3: case 4: case 5: n = r.below(1024); break;
    default: n = r.below(80); break;
    }
    std::string s;
    const int style = (int)r.below(6);
    while (s.size() < n) {
        switch (style) {
        case 0: s += (char)r.range(1, 255); break;
        case 1: s += r.from("<>\"'&", 1); break;
        case 2: s += r.pick({"&lt;", "&gt", "&amp;", "&#60;", "&#", "&#x3c;", "&quot;", "&apos", ";", "#", "<script>", "</a>", "a=\"b\"", "'", "&&", "&#0;", "&#256;"}); break;
        case 3: s += (char)(r.coin() ? r.range(0x7f, 0xff) : r.range(1, 0x1f)); break;
        case 4: s += r.from("abc xyz/:.-_%?=0123456789\r\n\t", 1); if (r.chance(1, 10)) s += r.from("<>\"'&", 1); break;
        default: s += (char)r.range(0x20, 0x7e); break;
        }
    }
    s.resize(n);
    for (auto &c : s) if (!c) c = '&';
    return "Q\n" + s;
}

int drive(Ctx &ctx) {
    if (!ctx.replaying) {
        // exhaustive: all strings of length <= 4 over a 16-symbol alphabet (69 905 strings), split over the shards
        static const char alphabet[16] = {'<', '>', '"', '\'', '&', ';', '#', 'a', 'l', 't', '1', '0', '\n', '\x01', '\x7f', '\xff'};
        long n = 0;
        uint64_t idx = 0;
        for (int len = 0; len <= 4; ++len) {
            const uint64_t total = 1ULL << (4 * len);
            for (uint64_t v = 0; v < total; ++v, ++idx) {
                if ((int)(idx % (uint64_t)ctx.nshards) != ctx.shard) continue;
                std::string s(len, '\0');
                for (int i = 0; i < len; ++i) s[i] = alphabet[(v >> (4 * i)) & 15];
                const std::string w = "Q\n" + s;
                ctx.begin(w); run(ctx, w); ++n;
            }
        }
        // and every single byte value, alone and between letters
        if (ctx.shard == 0) for (int b = 1; b < 256; ++b) for (int form = 0; form < 2; ++form) {
            const std::string w = std::string("Q\n") + (form ? "x" : "") + std::string(1, (char)b) + (form ? "y" : "");
            ctx.begin(w); run(ctx, w); ++n;
        }
        ctx.count("exhaustive_cases", n);
        ctx.exhaustive = true;
    }
    return vh::Loop(ctx, gen, run);
}

} // namespace

VH_REGISTER(C32, drive, "html_quote: no raw metacharacters, entity decoding restores the input");
