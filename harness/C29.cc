// C29 Cache-Control directives parse and re-serialise faithfully.
// Differential oracle: HttpHdrCc::parse + accessors against a reference directive parser written from
// the property statement and RFC 9111 section 5.2 / RFC 9110 section 5.6; packInto -> parse fixpoint.
#include "squid.h"
#include "vh.h"
#include "HttpHdrCc.h"
#include "MemBuf.h"
#include "SquidString.h"

#include <climits>

using vh::Ctx;
using vh::Rng;

namespace {

// case encoding: the Cache-Control field value itself (no NUL bytes)

enum Dir { Public, Private, NoCache, NoStore, NoTransform, MustRevalidate, ProxyRevalidate, MaxAge, SMaxage, MaxStale, MinFresh, OnlyIfCached, StaleIfError, Immutable, NDir };
const char *const Names[NDir] = {"public", "private", "no-cache", "no-store", "no-transform", "must-revalidate", "proxy-revalidate", "max-age", "s-maxage", "max-stale", "min-fresh", "only-if-cached", "stale-if-error", "immutable"};
bool isNumeric(int d) { return d == MaxAge || d == SMaxage || d == MaxStale || d == MinFresh || d == StaleIfError; }
bool isList(int d) { return d == Private || d == NoCache; }

bool isTchar(unsigned char c) { return isalnum(c) || (c && strchr("!#$%&'*+-.^_`|~", c)); }
bool isToken(const std::string &s) { if (s.empty()) return false; for (unsigned char c : s) if (!isTchar(c)) return false; return true; }
bool isOws(char c) { return c == ' ' || c == '\t'; }

// RFC 9110 5.6.4 quoted-string; returns false if `s` is not exactly one quoted-string
bool unquote(const std::string &s, std::string &out, bool &escapedSpecial) {
    out.clear();
    if (s.size() < 2 || s[0] != '"' || s[s.size() - 1] != '"') return false;
    for (size_t i = 1; i + 1 < s.size(); ++i) {
        const unsigned char c = s[i];
        if (c == '\\') {
            if (i + 2 >= s.size()) return false; // the backslash would escape the closing quote
            const unsigned char d = s[++i];
            if (!(d == '\t' || d == ' ' || (d >= 0x21 && d != 0x7f))) return false;
            if (d == '"' || d == '\\') escapedSpecial = true;
            out += (char)d;
        } else if (c == '"') return false;
        else if (c == '\t' || c == ' ' || c == 0x21 || (c >= 0x23 && c != 0x7f)) out += (char)c;
        else return false;
    }
    return true;
}

// one occurrence of a directive
struct Occ { enum { Valid, Invalid, Lenient } kind; long num; std::string list; };

struct Expect {
    enum St { Absent, Present, DontCare } st[NDir];
    long num[NDir];
    std::string list[NDir];
    std::vector<std::string> others; // unknown directives, verbatim
    bool notJudged = false;          // some element is outside the cache-directive grammar
    std::string classes;             // feature text: what kinds of arguments were seen
    int quotedPairSpecial = 0;
};

// splits a #list honouring quoted-strings; elements are OWS-trimmed, empty ones dropped
std::vector<std::string> splitList(const std::string &v) {
    std::vector<std::string> out;
    std::string cur;
    bool q = false;
    for (size_t i = 0; i <= v.size(); ++i) {
        if (i == v.size() || (!q && v[i] == ',')) {
            size_t b = 0, e = cur.size();
            while (b < e && isOws(cur[b])) ++b;
            while (e > b && isOws(cur[e - 1])) --e;
            if (e > b) out.push_back(cur.substr(b, e - b));
            cur.clear();
            continue;
        }
        if (q && v[i] == '\\' && i + 1 < v.size()) { cur += v[i]; cur += v[++i]; continue; }
        if (v[i] == '"') q = !q;
        cur += v[i];
    }
    return out;
}

int dirByName(std::string n) {
    for (auto &c : n) c = (char)tolower((unsigned char)c);
    for (int d = 0; d < NDir; ++d) if (n == Names[d]) return d;
    return -1;
}

Expect reference(const std::string &value) {
    Expect x;
    for (int d = 0; d < NDir; ++d) { x.st[d] = Expect::Absent; x.num[d] = -1; }
    std::vector<Occ> occ[NDir];
    bool flagArg[NDir] = {false};
    for (char c : value) if ((unsigned char)c < 0x20 && c != '\t') x.notJudged = true; // CTLs cannot occur in a field value
    for (const auto &el : splitList(value)) {
        const auto eq = el.find('=');
        const std::string name = el.substr(0, eq);
        const bool hasArg = eq != std::string::npos;
        const std::string arg = hasArg ? el.substr(eq + 1) : "";
        if (!isToken(name)) { x.notJudged = true; continue; }
        std::string unq;
        bool special = false;
        const bool argQuoted = hasArg && unquote(arg, unq, special);
        if (hasArg && !arg.empty() && !isToken(arg) && !argQuoted) { x.notJudged = true; continue; } // neither token nor quoted-string
        const int d = dirByName(name);
        if (d < 0) { x.others.push_back(el); x.classes += 'o'; continue; }
        if (isNumeric(d)) {
            Occ o{Occ::Invalid, -1, ""};
            if (!hasArg) {
                if (d == MaxStale) { o.kind = Occ::Valid; o.num = HttpHdrCc::MAX_STALE_ANY; x.classes += 'a'; }
                else x.classes += 'm'; // missing argument: invalid
            } else {
                size_t i = 0;
                while (i < arg.size() && isdigit((unsigned char)arg[i])) ++i;
                if (i == arg.size() && i > 0) { // delta-seconds = 1*DIGIT
                    size_t z = 0;
                    while (z + 1 < arg.size() && arg[z] == '0') ++z;
                    const std::string sig = arg.substr(z);
                    if (sig.size() <= 10 && atoll(sig.c_str()) <= INT_MAX) { o.kind = Occ::Valid; o.num = atoll(sig.c_str()); x.classes += 'v'; }
                    else x.classes += 'h'; // does not fit: invalid
                    if (d == MaxStale && o.kind == Occ::Valid && o.num == HttpHdrCc::MAX_STALE_ANY) o.kind = Occ::Lenient; // coincides with Squid's "any" marker
                } else if (arg.empty()) x.classes += 'e';
                else if (argQuoted) { o.kind = Occ::Lenient; x.classes += 'q'; } // quoted delta-seconds: RFC 9111 lets recipients accept it
                else if (i > 0) { o.kind = Occ::Lenient; x.classes += 't'; }       // digits then garbage: prefix-number leniency
                else if (arg[0] == '+') { o.kind = Occ::Lenient; x.classes += 's'; }
                else if (arg[0] == '-') { // negative: invalid; "-0" lenient
                    size_t j = 1;
                    while (j < arg.size() && arg[j] == '0') ++j;
                    if (j > 1 && !(j < arg.size() && isdigit((unsigned char)arg[j]))) { o.kind = Occ::Lenient; x.classes += 's'; }
                    else x.classes += 'n';
                } else x.classes += 'g'; // no number at all
                if (d == MaxStale && o.kind == Occ::Invalid) o.kind = Occ::Lenient; // documented: max-stale=<invalid> means plain max-stale
            }
            occ[d].push_back(o);
        } else if (isList(d)) {
            Occ o{Occ::Lenient, -1, ""};
            if (!hasArg) { o.kind = Occ::Valid; x.classes += 'p'; }
            else if (argQuoted && !special) { o.kind = Occ::Valid; o.list = unq; x.classes += unq.find('\t') != std::string::npos ? 'T' : 'l'; }
            else if (argQuoted) { ++x.quotedPairSpecial; x.classes += 'Q'; } // \" or \\ cannot occur in a field-name list: not judged
            else x.classes += 'u'; // unquoted / empty argument: the statement speaks of quoted lists only
            occ[d].push_back(o);
        } else {
            if (hasArg) flagArg[d] = true; // argument on a flag directive: not settled by the statement
            else if (x.st[d] == Expect::Absent) x.st[d] = Expect::Present;
            x.classes += 'f';
        }
    }
    for (int d = 0; d < NDir; ++d) {
        if (flagArg[d]) x.st[d] = Expect::DontCare;
        if (occ[d].empty()) continue;
        bool anyLenient = false, allValid = true, allInvalid = true, equal = true;
        for (const auto &o : occ[d]) {
            if (o.kind == Occ::Lenient) anyLenient = true;
            if (o.kind != Occ::Valid) allValid = false;
            if (o.kind != Occ::Invalid) allInvalid = false;
            if (o.num != occ[d][0].num || o.list != occ[d][0].list) equal = false;
        }
        if (anyLenient) x.st[d] = Expect::DontCare;
        else if (allValid && equal) { x.st[d] = Expect::Present; x.num[d] = occ[d][0].num; x.list[d] = occ[d][0].list; }
        else if (allInvalid) x.st[d] = Expect::Absent;
        else x.st[d] = Expect::DontCare; // conflicting duplicates: which one wins is not stated
        if (occ[d].size() > 1) x.classes += 'D';
    }
    return x;
}

struct Seen { bool has[NDir]; long num[NDir]; std::string list[NDir]; std::vector<std::string> others; };

std::string str(const String &s) { return s.size() ? std::string(s.rawBuf(), s.size()) : std::string(); }

Seen observe(const HttpHdrCc &cc) {
    Seen s;
    for (int d = 0; d < NDir; ++d) { s.has[d] = false; s.num[d] = -1; }
    s.has[Public] = cc.hasPublic();
    const String *l = nullptr;
    if ((s.has[Private] = cc.hasPrivate(&l)) && l) s.list[Private] = str(*l);
    l = nullptr;
    if ((s.has[NoCache] = cc.hasNoCache(&l)) && l) s.list[NoCache] = str(*l);
    s.has[NoStore] = cc.hasNoStore();
    s.has[NoTransform] = cc.hasNoTransform();
    s.has[MustRevalidate] = cc.hasMustRevalidate();
    s.has[ProxyRevalidate] = cc.hasProxyRevalidate();
    int32_t v = -1;
    if ((s.has[MaxAge] = cc.hasMaxAge(&v))) s.num[MaxAge] = v;
    if ((s.has[SMaxage] = cc.hasSMaxAge(&v))) s.num[SMaxage] = v;
    if ((s.has[MaxStale] = cc.hasMaxStale(&v))) s.num[MaxStale] = v;
    if ((s.has[MinFresh] = cc.hasMinFresh(&v))) s.num[MinFresh] = v;
    s.has[OnlyIfCached] = cc.hasOnlyIfCached();
    if ((s.has[StaleIfError] = cc.hasStaleIfError(&v))) s.num[StaleIfError] = v;
    s.has[Immutable] = cc.hasImmutable();
    s.others = splitList(str(cc.other));
    return s;
}

void run(Ctx &ctx, const std::string &value) {
    if (value.find('\0') != std::string::npos) { ctx.grey(); return; }
    const Expect x = reference(value);

    HttpHdrCc cc;
    const String field(value.c_str());
    const bool parsed = cc.parse(field);
    const Seen got = observe(cc);

    // pack -> parse
    MemBuf mb;
    mb.init();
    cc.packInto(&mb);
    const std::string packed(mb.content(), mb.contentSize());
    mb.clean();
    HttpHdrCc cc2;
    const String field2(packed.c_str());
    const bool parsed2 = cc2.parse(field2);
    const Seen again = observe(cc2);
    ctx.ubsanGate({"HttpHdrCc.cc", "HttpHdrCc.h"});
    if (x.quotedPairSpecial) ctx.count("quoted_pair_of_dquote_or_backslash_in_list_not_judged", x.quotedPairSpecial);

    if (x.notJudged) { ctx.grey(); return; }

    uint64_t mask = 0;
    bool any = false;
    for (int d = 0; d < NDir; ++d) {
        if (x.st[d] == Expect::DontCare) { ctx.count("accessor_not_judged"); continue; }
        any = true;
        const bool want = x.st[d] == Expect::Present;
        if (want) mask |= 1u << d;
        const std::string n = Names[d];
        if (got.has[d] != want) {
            ctx.violation(n + (want ? ":missing" : ":spurious") + (want && x.list[d].find('\t') != std::string::npos ? ":htab" : ""), "'" + vh::show(value) + "': directive " + n + (want ? " is present with a valid argument but the accessor says absent" : " is absent/invalid but the accessor says present") + (got.has[d] && isNumeric(d) ? " value " + std::to_string(got.num[d]) : ""));
            continue;
        }
        if (!want) continue;
        if (isNumeric(d) && got.num[d] != x.num[d])
            ctx.violation(n + ":wrong-value", "'" + vh::show(value) + "': " + n + " is " + std::to_string(got.num[d]) + " expected " + std::to_string(x.num[d]));
        if (isList(d) && got.list[d] != x.list[d])
            ctx.violation(n + (x.list[d].find('\t') != std::string::npos ? ":wrong-list:htab" : ":wrong-list"), "'" + vh::show(value) + "': " + n + " field list is '" + vh::show(got.list[d]) + "' expected '" + vh::show(x.list[d]) + "'");
    }
    if (got.others != x.others)
        ctx.violation("other:wrong", "'" + vh::show(value) + "': unrecognised directives kept as '" + vh::show(str(cc.other)) + "' expected " + std::to_string(x.others.size()) + " verbatim elements");

    // fixpoint, for every accessor (also the ones whose first-parse value is not judged); only when the first parse
    // produced an object a caller would keep (HttpHeader::getCc discards it when parse() returns false)
    if (parsed) {
        std::string diff;
        for (int d = 0; d < NDir; ++d)
            if (got.has[d] != again.has[d] || got.num[d] != again.num[d] || got.list[d] != again.list[d]) diff += std::string(Names[d]) + " ";
        if (got.others != again.others) diff += "other ";
        if (!parsed2) diff += "(reparse-failed) ";
        if (!diff.empty())
            ctx.violation("fixpoint:" + diff.substr(0, diff.find(' ')), "'" + vh::show(value) + "' packs as '" + vh::show(packed) + "' which parses differently in: " + diff);
    } else ctx.count("parse_returned_false");

    std::string cls = x.classes;
    std::sort(cls.begin(), cls.end());
    cls.erase(std::unique(cls.begin(), cls.end()), cls.end());
    // feature: which valued directives are present, how many flags, which argument classes occurred
    const uint64_t valued = mask & ((1u << Private) | (1u << NoCache) | (1u << MaxAge) | (1u << SMaxage) | (1u << MaxStale) | (1u << MinFresh) | (1u << StaleIfError));
    const int flags = __builtin_popcountll(mask & ~valued);
    ctx.feature(Ctx::mix(valued, Ctx::hash(cls + (parsed ? "+" : "-") + std::to_string(std::min(flags, 3)))), any && !value.empty());
}

// ---- generator -----------------------------------------------------------------------------

std::string caseMangle(Rng &r, std::string s) {
    switch (r.below(8)) {
    case 0: for (auto &c : s) c = (char)toupper((unsigned char)c); break;
    case 1: for (auto &c : s) if (r.coin()) c = (char)toupper((unsigned char)c); break;
    case 2: s[0] = (char)toupper((unsigned char)s[0]); break;
    default: break;
    }
    return s;
}

std::string genNumber(Rng &r) {
    std::string s;
    switch (r.below(12)) {
    case 0: case 1: case 2: s = std::to_string(r.below(100000)); break;
    case 3: s = std::to_string(r.below(10)); break;
    case 4: { static const long long lim[] = {INT_MAX, (long long)INT_MAX + 1, UINT_MAX, (long long)UINT_MAX + 1, (1LL << 32) + 1, 1LL << 31, 1LL << 33, 4294967297LL};
              s = std::to_string(lim[r.below(8)] + r.range(-2, 2)); break; }
    case 5: s = r.pick({"9223372036854775807", "9223372036854775808", "18446744073709551615", "18446744073709551616", "18446744073709551617", "99999999999999999999999999", "340282366920938463463374607431768211457"}); break;
    case 6: s = "-" + std::to_string(r.below(1000) + 1); break;
    case 7: s = r.from("0123456789", 1 + r.below(22)); break;
    case 8: s = std::to_string(r.next() >> (1 + r.below(63))); break;
    default: s = std::to_string(r.below(1u << 31)); break;
    }
    if (r.chance(1, 10)) s.insert(s[0] == '-' ? 1 : 0, r.below(12) + 1, '0');
    return s;
}

std::string genFieldList(Rng &r) {
    std::string s;
    const size_t n = r.below(4);
    for (size_t i = 0; i < n; ++i) {
        if (i) s += r.pick({",", ", ", " , ", ",\t", ",,"});
        s += r.pick({"Set-Cookie", "set-cookie2", "X-Foo", "Authorization", "a", "B", "x-y_z", "Max-Age"});
    }
    if (r.chance(1, 30)) s += r.pick({"\\\"", "\\\\", "\\a", "a\\\"b", " ", "\t", "\x80", "=", "max-age=5"});
    return "\"" + s + "\"";
}

std::string genDirective(Rng &r) {
    std::string name, arg;
    bool hasArg = false;
    const unsigned k = (unsigned)r.below(100);
    int d = -1;
    if (k < 80) { d = (int)r.below(NDir); if (r.chance(1, 2)) d = (int)r.pick(std::vector<int>{MaxAge, SMaxage, MaxStale, MinFresh, StaleIfError, Private, NoCache}); name = caseMangle(r, Names[d]); }
    else if (k < 95) name = r.pick({"foo", "max-ag", "max-agee", "x-max-age", "community", "stale-while-revalidate", "no_cache", "nocache", "public2", "s-max-age", "must-understand", "other", "Other", "pre-check", "post-check"});
    else name = r.from("abcxyz-_.!~09", 1 + r.below(8));
    if (d >= 0 && isNumeric(d)) {
        const unsigned a = (unsigned)r.below(100);
        if (a < 75) { hasArg = true; arg = genNumber(r); }
        else if (a < 82) hasArg = false;
        else if (a < 90) { hasArg = true; arg = r.pick({"", "abc", "x5", "-", "--5", ".5", "~", "zero", "0x10", "*"}); }
        else { hasArg = true; arg = r.pick({"5x", "+5", "-0", "\"5\"", "5.0", "1e3", "07 ", "1_000", "\"\"", "\"abc\"", "5;x"}); }
    } else if (d >= 0 && isList(d)) {
        const unsigned a = (unsigned)r.below(100);
        if (a < 40) hasArg = false;
        else if (a < 90) { hasArg = true; arg = genFieldList(r); }
        else { hasArg = true; arg = r.pick({"Set-Cookie", "", "\"unterminated", "a\"b\"", "5"}); }
    } else if (d >= 0) {
        if (r.chance(1, 25)) { hasArg = true; arg = r.pick({"1", "yes", "\"x\"", ""}); }
    } else {
        const unsigned a = (unsigned)r.below(100);
        if (a < 40) hasArg = false;
        else if (a < 70) { hasArg = true; arg = genNumber(r); }
        else if (a < 85) { hasArg = true; arg = genFieldList(r); }
        else { hasArg = true; arg = r.pick({"bar", "a.b", "\"a, b\"", "\"a\\\"b\"", "x=y"}); }
    }
    std::string s = name;
    if (hasArg) s += "=" + arg;
    if (r.chance(1, 60)) { // grammar-breaking edit
        const size_t at = r.below(s.size() + 1);
        const char c = r.from(" \t=\";:/\\\x01\x7f", 1)[0];
        if (r.coin() && at < s.size()) s[at] = c; else s.insert(at, 1, c);
    }
    return s;
}

std::string gen(Rng &r) {
    std::string v;
    size_t n = 1 + r.below(5);
    if (r.chance(1, 30)) n = r.below(14);
    for (size_t i = 0; i < n; ++i) {
        if (i) v += r.chance(2, 3) ? ", " : r.pick({",", " ,", ",,", ", ,", ",\t", " , "});
        v += genDirective(r);
    }
    if (r.chance(1, 40)) v += r.pick({",", " ", ", "});
    if (r.chance(1, 40)) v.insert(0, r.pick({",", " ", ", "}));
    for (auto &c : v) if (c == '\0') c = 'x';
    return v;
}

int drive(Ctx &ctx) {
    if (!ctx.replaying && ctx.shard == 0) {
        // boundary enumeration: every numeric directive with every value within +-2 of the int32/uint32/int64 limits and powers of ten
        long n = 0;
        std::vector<std::string> nums;
        typedef __int128 i128;
        std::vector<i128> centres = {0, (i128)INT_MAX, (i128)UINT_MAX, (i128)1 << 32, (i128)1 << 33, (i128)INT64_MAX, ((i128)1 << 64), ((i128)1 << 64) + ((i128)1 << 32)};
        i128 p = 1;
        for (int k = 0; k < 24; ++k) { centres.push_back(p); p *= 10; }
        for (i128 c : centres) for (int dlt = -2; dlt <= 2; ++dlt) {
            i128 v = c + dlt;
            const bool neg = v < 0;
            if (neg) v = -v;
            std::string s;
            if (v == 0) s = "0";
            while (v > 0) { s.insert(s.begin(), (char)('0' + (int)(v % 10))); v /= 10; }
            nums.push_back((neg ? "-" : "") + s);
            nums.push_back((neg ? "-" : "") + ("00" + s));
        }
        for (int d : {MaxAge, SMaxage, MaxStale, MinFresh, StaleIfError}) for (const auto &s : nums) {
            for (const std::string &w : {std::string(Names[d]) + "=" + s, "public, " + std::string(Names[d]) + "=" + s + ", foo", std::string(Names[d]) + "=" + s + "," + Names[d] + "=" + s}) {
                ctx.begin(w); run(ctx, w); ++n;
            }
        }
        ctx.count("boundary_cases_enumerated", n);
    }
    return vh::Loop(ctx, gen, run);
}

} // namespace

VH_REGISTER(C29, drive, "Cache-Control parse/accessors vs reference directive parser + pack/parse fixpoint");
