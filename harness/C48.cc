// C48 Byte-string values behave as independent values.
// Differential oracle: 1..6 SBufs driven by an operation script (copies, appends, assignments from each other and
// from their own storage, consume/chop/substr/trim, case changes, searches, comparisons, raw appends, reservations,
// npos and out-of-range arguments) next to a std::string model of independent values. After every step every
// variable's length and bytes are compared with the model; return values are compared; limit violations must throw.
// A case is the whole script (text); all SBufs are created fresh inside run().
#include "squid.h"
#include "vh.h"
#include "base/CharacterSet.h"
#include "base/TextException.h"
#include "mem/Pool.h"
#include "sbuf/SBuf.h"

#include <sstream>

using vh::Ctx;
using vh::Rng;

namespace {

const uint64_t NPOS = (uint64_t)SBuf::npos;
const size_t Cap = 100000; // the driver skips (in model and Squid alike) growth beyond this many bytes

struct Op { std::string code; std::vector<uint64_t> a; std::string bytes; };

// op table: code, number of numeric arguments, has a hex byte-string argument
struct Spec { const char *code; int nargs; bool bytes; };
const Spec Specs[] = {
    {"as", 2, false}, {"cc", 2, false}, {"al", 1, true}, {"az", 1, true}, {"ao", 4, false}, {"ap", 2, false},
    {"ab", 1, true}, {"an", 1, true}, {"aw", 4, false}, {"ss", 4, false}, {"pb", 2, false}, {"pf", 3, false},
    {"af", 3, false}, {"co", 3, false}, {"ch", 3, false}, {"su", 4, false}, {"tr", 4, false}, {"lo", 1, false},
    {"up", 1, false}, {"sa", 3, false}, {"cl", 1, false}, {"rs", 2, false}, {"rc", 2, false}, {"rq", 5, false},
    {"ra", 2, true}, {"cs", 1, false}, {"at", 2, false}, {"cm", 4, false}, {"cz", 3, true}, {"eq", 2, false},
    {"sw", 3, false}, {"fc", 3, false}, {"fs", 3, false}, {"Rc", 3, false}, {"Rs", 3, false}, {"f1", 3, false},
    {"f2", 3, false}, {"f3", 3, false}, {"f4", 3, false}, {"cp", 2, false}, {"it", 1, false},
};
const Spec *findSpec(const std::string &c) { for (auto &s : Specs) if (c == s.code) return &s; return nullptr; }

std::string num(uint64_t v) { return v == NPOS ? "n" : std::to_string(v); }
std::string encOp(const Op &o) {
    std::string r = o.code;
    for (auto v : o.a) r += " " + num(v);
    if (findSpec(o.code)->bytes) r += " " + (o.bytes.empty() ? std::string("-") : vh::hexEncode(o.bytes));
    return r;
}
bool decScript(const std::string &w, int &nv, std::vector<Op> &ops) {
    std::istringstream is(w);
    std::string t;
    if (!(is >> t) || t != "V" || !(is >> nv) || nv < 1 || nv > 6) return false;
    while (is >> t) {
        const Spec *s = findSpec(t);
        if (!s) return false;
        Op o; o.code = t;
        for (int i = 0; i < s->nargs; ++i) { std::string x; if (!(is >> x)) return false; o.a.push_back(x == "n" ? NPOS : strtoull(x.c_str(), nullptr, 10)); }
        if (s->bytes) { std::string x; if (!(is >> x)) return false; o.bytes = x == "-" ? "" : vh::hexDecode(x); }
        ops.push_back(o);
    }
    return true;
}

int sgn(long v) { return v < 0 ? -1 : v > 0 ? 1 : 0; }
std::string lowerAscii(std::string s) { for (auto &c : s) if (c >= 'A' && c <= 'Z') c = (char)(c + 32); return s; }
std::string upperAscii(std::string s) { for (auto &c : s) if (c >= 'a' && c <= 'z') c = (char)(c - 32); return s; }
std::string cstrOf(const std::string &s) { return s.substr(0, s.find('\0')); } // what a C string made of s holds
size_t sp(uint64_t p) { return p == NPOS ? std::string::npos : (size_t)p; }
uint64_t rp(size_t p) { return p == std::string::npos ? NPOS : (uint64_t)p; }
// std::string::substr semantics with SBuf's documented clamping (pos > length => empty)
std::string sub(const std::string &s, uint64_t pos, uint64_t n) {
    if (pos == NPOS || pos > s.size()) return "";
    return s.substr((size_t)pos, n == NPOS ? std::string::npos : (size_t)n);
}
// does the first difference between a and b involve a byte >= 0x80 ?
bool highBitDiff(const std::string &a, const std::string &b) {
    size_t i = 0; while (i < a.size() && i < b.size() && a[i] == b[i]) ++i;
    const unsigned x = i < a.size() ? (unsigned char)a[i] : 0, y = i < b.size() ? (unsigned char)b[i] : 0;
    return x >= 0x80 || y >= 0x80;
}

struct Stop {}; // thrown by the checker to end the case after a violation

void run(Ctx &ctx, const std::string &w) {
    int nv = 0;
    std::vector<Op> ops;
    if (!decScript(w, nv, ops)) return;
    std::vector<SBuf> v(nv);
    std::vector<std::string> m(nv);
    std::map<std::string, long> used;
    size_t maxLen = 0;
    int throwsSeen = 0, skipped = 0;
    std::string feat = "V" + std::to_string(nv);
    bool dead = false;
    bool zeroRawAppend = false; // rawAppendStart(0)+rawAppendFinish(,0) happened earlier in this history

    auto idx = [&](uint64_t x) { return (int)(x % (uint64_t)nv); };

    for (size_t step = 0; step < ops.size() && !dead; ++step) {
        const Op &o = ops[step];
        const std::string &c = o.code;
        auto where = [&]() { return "step " + std::to_string(step) + " '" + encOp(o) + "': "; };
        bool wrapsNow = false;
        auto fail = [&](const std::string &key, const std::string &detail) { ctx.violation(wrapsNow ? std::string("chop:pos+n-wraps-size_type") : zeroRawAppend ? std::string("rawAppendFinish:zero-size-append-shrinks-shared-blob") : key, where() + detail + (zeroRawAppend && !wrapsNow ? " [after rawAppendStart(0)/rawAppendFinish(,0) earlier in this history]" : "")); dead = true; throw Stop(); };
        // observers change no state: report and carry on with the script
        auto soft = [&](const std::string &key, const std::string &detail) { ctx.violation(key, where() + detail); };
        auto expectEq = [&](const char *what, uint64_t got, uint64_t exp) { if (got != exp) fail(c + ":" + what, std::string(what) + " returned " + num(got) + ", std::string model gives " + num(exp)); };
        if (step < 1) feat += c;
        ++used[c];
        const int i = idx(o.a[0]);
        bool expectThrow = false, threw = false;
        // chop(pos,n)/substr(pos,n) with 0 < pos <= length and pos+n beyond 2^32 (n != npos): one root cause, one key
        bool wraps = false;
        if (c == "ch" || c == "su" || c == "ss") {
            const uint64_t p = c == "ch" ? o.a[1] : o.a[2], n = c == "ch" ? o.a[2] : o.a[3];
            const size_t l = m[c == "ch" ? i : idx(o.a[1])].size();
            wraps = p != NPOS && n != NPOS && p <= l && p + n > 0xffffffffULL;
        }
        wrapsNow = wraps;
        std::string threwWhat;
        try {
            try {
                if (c == "as") { const int j = idx(o.a[1]); v[i] = v[j]; m[i] = m[j]; }
                else if (c == "cc") { const int j = idx(o.a[1]); SBuf t(v[j]); v[i] = std::move(t); m[i] = m[j]; }
                else if (c == "al") { v[i].assign(o.bytes.data(), o.bytes.size()); m[i] = o.bytes; }
                else if (c == "az") { const std::string z = cstrOf(o.bytes); v[i] = z.c_str(); m[i] = z; }
                else if (c == "ao" || c == "aw") {
                    const int j = idx(o.a[1]);
                    const size_t off = std::min<size_t>(o.a[2], m[j].size()), n = std::min<size_t>(o.a[3], m[j].size() - off);
                    if (c == "aw" && m[i].size() + n > Cap) { ++skipped; }
                    else {
                        const std::string piece = m[j].substr(off, n);
                        const char *p = v[j].rawContent() + off; // may point into v[i]'s own storage
                        if (c == "ao") { v[i].assign(p, n); m[i] = piece; } else { v[i].append(p, n); m[i] += piece; }
                    }
                }
                else if (c == "ap") { const int j = idx(o.a[1]); if (m[i].size() + m[j].size() > Cap) ++skipped; else { v[i].append(v[j]); m[i] += std::string(m[j]); } }
                else if (c == "ab") { v[i].append(o.bytes.data(), o.bytes.size()); m[i] += o.bytes; }
                else if (c == "an") { const std::string z = cstrOf(o.bytes); v[i].append(z.c_str()); m[i] += z; }
                else if (c == "ss") { const int j = idx(o.a[1]); const std::string piece = sub(m[j], o.a[2], o.a[3]); if (m[i].size() + piece.size() > Cap) ++skipped; else { v[i].append(v[j].substr((SBuf::size_type)o.a[2], (SBuf::size_type)o.a[3])); m[i] += piece; } }
                else if (c == "pb") { v[i].push_back((char)o.a[1]); m[i] += (char)o.a[1]; }
                else if (c == "pf" || c == "af") {
                    const int j = idx(o.a[1]); const int k = (int)(o.a[2] % 100000);
                    const std::string text = cstrOf(m[j]) + ":" + std::to_string(k);
                    if (m[i].size() + text.size() > Cap) ++skipped;
                    else if (c == "pf") { v[i].Printf("%s:%d", v[j].c_str(), k); m[i] = text; }
                    else { v[i].appendf("%s:%d", v[j].c_str(), k); m[i] += text; }
                }
                else if (c == "co") {
                    const int k = idx(o.a[1]);
                    const size_t n = o.a[2] == NPOS ? m[i].size() : std::min<size_t>(o.a[2], m[i].size());
                    SBuf got = v[i].consume((SBuf::size_type)o.a[2]);
                    const std::string head = m[i].substr(0, n); m[i].erase(0, n);
                    v[k] = got; m[k] = head;
                }
                else if (c == "ch") { v[i].chop((SBuf::size_type)o.a[1], (SBuf::size_type)o.a[2]); m[i] = sub(m[i], o.a[1], o.a[2]); }
                else if (c == "su") { const int j = idx(o.a[1]); SBuf t = v[j].substr((SBuf::size_type)o.a[2], (SBuf::size_type)o.a[3]); const std::string piece = sub(m[j], o.a[2], o.a[3]); v[i] = t; m[i] = piece; }
                else if (c == "tr") {
                    const int j = idx(o.a[1]); const bool b = o.a[2] & 1, e = o.a[3] & 1;
                    const std::string set = m[j]; // value semantics: the set is what v[j] held when the call was made
                    v[i].trim(v[j], b, e);
                    std::string &s = m[i];
                    if (e) while (!s.empty() && set.find(s.back()) != std::string::npos) s.pop_back();
                    if (b) { size_t k = 0; while (k < s.size() && set.find(s[k]) != std::string::npos) ++k; s.erase(0, k); }
                }
                else if (c == "lo") { v[i].toLower(); m[i] = lowerAscii(m[i]); }
                else if (c == "up") { v[i].toUpper(); m[i] = upperAscii(m[i]); }
                else if (c == "sa") { expectThrow = o.a[1] >= m[i].size(); v[i].setAt((SBuf::size_type)o.a[1], (char)o.a[2]); if (!expectThrow) m[i][(size_t)o.a[1]] = (char)o.a[2]; }
                else if (c == "cl") { v[i].clear(); m[i].clear(); }
                else if (c == "rs") { expectThrow = o.a[1] > SBuf::maxSize || m[i].size() > SBuf::maxSize - o.a[1]; if (!expectThrow && o.a[1] > 1000000) ++skipped; else v[i].reserveSpace((SBuf::size_type)o.a[1]); }
                else if (c == "rc") { expectThrow = o.a[1] > SBuf::maxSize; if (!expectThrow && o.a[1] > 1000000) ++skipped; else v[i].reserveCapacity((SBuf::size_type)o.a[1]); }
                else if (c == "rq") {
                    SBufReservationRequirements req;
                    req.idealSpace = (SBuf::size_type)std::min<uint64_t>(o.a[1], 20000); req.minSpace = (SBuf::size_type)std::min<uint64_t>(o.a[2], 20000);
                    req.maxCapacity = (SBuf::size_type)std::min<uint64_t>(o.a[3], SBuf::maxSize); req.allowShared = o.a[4] & 1;
                    const auto got = v[i].reserve(req);
                    if (got != v[i].spaceSize()) fail("rq:result", "reserve() returned " + num(got) + " but spaceSize() is " + num(v[i].spaceSize()));
                }
                else if (c == "ra") {
                    const size_t n = std::max<size_t>(std::min<size_t>(o.a[1], 5000), o.bytes.size());
                    if (m[i].size() + n > Cap) ++skipped;
                    else { if (!n) zeroRawAppend = true; char *space = v[i].rawAppendStart((SBuf::size_type)n); memcpy(space, o.bytes.data(), o.bytes.size()); v[i].rawAppendFinish(space, (SBuf::size_type)o.bytes.size()); m[i] += o.bytes; }
                }
                else if (c == "cs") {
                    const char *z = v[i].c_str();
                    if (z[m[i].size()] != '\0') fail("cs:terminator", "c_str() is not NUL-terminated at length()");
                    if (memcmp(z, m[i].data(), m[i].size()) != 0) fail("cs:content", "c_str() bytes differ from the model");
                }
                else if (c == "at") {
                    expectThrow = o.a[1] >= m[i].size();
                    const char got = v[i].at((SBuf::size_type)o.a[1]);
                    if (!expectThrow) { if (got != m[i][(size_t)o.a[1]] || v[i][(SBuf::size_type)o.a[1]] != got) fail("at:value", "at() returned a byte that differs from the model"); }
                }
                else if (c == "cm") {
                    const int j = idx(o.a[1]); const bool ci = o.a[2] & 1; const uint64_t n = o.a[3];
                    std::string A = n == NPOS ? m[i] : m[i].substr(0, (size_t)std::min<uint64_t>(n, m[i].size()));
                    std::string B = n == NPOS ? m[j] : m[j].substr(0, (size_t)std::min<uint64_t>(n, m[j].size()));
                    if (ci) { A = lowerAscii(A); B = lowerAscii(B); }
                    const int exp = sgn(A.compare(B));
                    const int got = sgn(n == NPOS && (o.a[2] & 2) ? (ci ? v[i].caseCmp(v[j]) : v[i].cmp(v[j])) : v[i].compare(v[j], ci ? caseInsensitive : caseSensitive, (SBuf::size_type)n));
                    if (got != exp) {
                        const bool hb = highBitDiff(A, B);
                        soft(std::string(ci ? "caseCmp" : "cmp") + (exp == 0 || got == 0 ? ":equality" : hb ? ":sign:8bit" : ":sign"),
                             std::string("compare(") + (ci ? "caseInsensitive" : "caseSensitive") + ", n=" + num(n) + ") of '" + vh::show(m[i], 40) + "' with '" + vh::show(m[j], 40) + "' has sign " + std::to_string(got) + ", model (unsigned bytes, as std::string/strcmp) " + std::to_string(exp));
                    }
                }
                else if (c == "cz") {
                    const bool ci = o.a[1] & 1; const uint64_t n = o.a[2];
                    const std::string z = cstrOf(o.bytes);
                    const size_t scan = (size_t)std::min<uint64_t>(n, m[i].size());
                    if (m[i].find('\0') < scan) { ++skipped; ctx.count("grey_cstr_compare_with_embedded_NUL"); } // a C string cannot express it: not judged
                    else {
                        std::string A = m[i].substr(0, (size_t)std::min<uint64_t>(n, m[i].size())), B = z.substr(0, (size_t)std::min<uint64_t>(n, z.size()));
                        if (ci) { A = lowerAscii(A); B = lowerAscii(B); }
                        const int exp = sgn(A.compare(B));
                        const int got = sgn(v[i].compare(z.c_str(), ci ? caseInsensitive : caseSensitive, (SBuf::size_type)n));
                        if (got != exp) {
                            const bool hb = highBitDiff(A, B);
                            soft(std::string("compare-cstr") + (exp == 0 || got == 0 ? ":equality" : hb ? ":sign:8bit" : ":sign"),
                                 std::string("compare(const char*, ") + (ci ? "caseInsensitive" : "caseSensitive") + ", n=" + num(n) + ") of '" + vh::show(m[i], 40) + "' with \"" + vh::show(z, 40) + "\" has sign " + std::to_string(got) + ", model (unsigned bytes, as std::string/strcmp) " + std::to_string(exp));
                        }
                    }
                }
                else if (c == "eq") {
                    const int j = idx(o.a[1]); const int r = m[i].compare(m[j]);
                    if ((v[i] == v[j]) != (r == 0) || (v[i] != v[j]) != (r != 0)) fail("eq:equality", "operator==/!= disagree with the model");
                    if ((v[i] < v[j]) != (r < 0) || (v[i] > v[j]) != (r > 0) || (v[i] <= v[j]) != (r <= 0) || (v[i] >= v[j]) != (r >= 0)) fail("eq:order", "relational operators disagree with the model");
                }
                else if (c == "sw") {
                    const int j = idx(o.a[1]); const bool ci = o.a[2] & 1;
                    const std::string A = ci ? lowerAscii(m[i]) : m[i], B = ci ? lowerAscii(m[j]) : m[j];
                    const bool exp = A.compare(0, B.size(), B) == 0 && A.size() >= B.size();
                    if (v[i].startsWith(v[j], ci ? caseInsensitive : caseSensitive) != exp) fail("sw:result", std::string("startsWith returned ") + (exp ? "false" : "true"));
                }
                else if (c == "fc") expectEq("find", v[i].find((char)o.a[1], (SBuf::size_type)o.a[2]), rp(m[i].find((char)o.a[1], sp(o.a[2]))));
                else if (c == "Rc") expectEq("rfind", v[i].rfind((char)o.a[1], (SBuf::size_type)o.a[2]), rp(m[i].rfind((char)o.a[1], sp(o.a[2]))));
                else if (c == "fs") { const int j = idx(o.a[1]); expectEq("find", v[i].find(v[j], (SBuf::size_type)o.a[2]), rp(m[i].find(m[j], sp(o.a[2])))); }
                else if (c == "Rs") { const int j = idx(o.a[1]); expectEq("rfind", v[i].rfind(v[j], (SBuf::size_type)o.a[2]), rp(m[i].rfind(m[j], sp(o.a[2])))); }
                else if (c == "f1" || c == "f2" || c == "f3" || c == "f4") {
                    const int j = idx(o.a[1]);
                    CharacterSet set("verif", "");
                    for (unsigned char ch : m[j]) set.add(ch);
                    const size_t pos = sp(o.a[2]);
                    if (c == "f1") expectEq("findFirstOf", v[i].findFirstOf(set, (SBuf::size_type)o.a[2]), rp(m[i].find_first_of(m[j], pos)));
                    else if (c == "f2") expectEq("findFirstNotOf", v[i].findFirstNotOf(set, (SBuf::size_type)o.a[2]), rp(m[i].find_first_not_of(m[j], pos)));
                    else if (c == "f3") expectEq("findLastOf", v[i].findLastOf(set, (SBuf::size_type)o.a[2]), rp(m[i].find_last_of(m[j], pos)));
                    else expectEq("findLastNotOf", v[i].findLastNotOf(set, (SBuf::size_type)o.a[2]), rp(m[i].find_last_not_of(m[j], pos)));
                }
                else if (c == "cp") {
                    const size_t n = (size_t)std::min<uint64_t>(o.a[1], 8192);
                    std::vector<char> dest(n + 1, 'Z');
                    const auto got = v[i].copy(dest.data(), (SBuf::size_type)n);
                    const size_t exp = std::min(n, m[i].size());
                    if (got != exp || memcmp(dest.data(), m[i].data(), exp) != 0 || dest[exp] != 'Z') fail("cp:result", "copy() exported " + num(got) + " bytes, expected " + num(exp) + " (or bytes differ / overrun)");
                }
                else if (c == "it") {
                    std::string f, r;
                    for (auto it = v[i].begin(); it != v[i].end(); ++it) f += *it;
                    for (auto it = v[i].rbegin(); it != v[i].rend(); ++it) r += *it;
                    if (f != m[i] || r != std::string(m[i].rbegin(), m[i].rend()) || v[i].toStdString() != m[i] || v[i].isEmpty() != m[i].empty())
                        fail("it:content", "iteration/toStdString()/isEmpty() disagree with the model");
                }
            } catch (const Stop &) { throw; }
            catch (const TextException &e) { threw = true; threwWhat = e.what(); }
            catch (const std::exception &e) { threw = true; threwWhat = e.what(); }
            if (threw) ++throwsSeen;
            if (threw && !expectThrow) fail(c + ":unexpected-exception", "threw '" + vh::show(threwWhat, 120) + "' for arguments within limits");
            if (!threw && expectThrow) fail(c + ":no-exception", "out-of-range/over-limit argument did not throw");
            // every variable must now hold exactly what its independent model value holds
            for (int k = 0; k < nv; ++k) {
                if (v[k].length() != m[k].size())
                    fail(c + ":length", "variable " + std::to_string(k) + " has length " + num(v[k].length()) + ", model " + num(m[k].size()) + (k == i ? " (operand)" : " (bystander)"));
                if (m[k].size() && memcmp(v[k].rawContent(), m[k].data(), m[k].size()) != 0)
                    fail(c + (k == i ? ":content" : ":content-bystander"), "variable " + std::to_string(k) + " holds '" + vh::show(std::string(v[k].rawContent(), v[k].length()), 60) + "', model '" + vh::show(m[k], 60) + "'");
                maxLen = std::max(maxLen, m[k].size());
            }
        } catch (const Stop &) { }
    }
    if (dead) {
        // a damaged SBuf may claim a length it does not own; neutralise before destruction touches it
        for (auto &s : v) { try { s = SBuf(); } catch (...) {} }
    }
    ctx.ubsanGate({"sbuf/SBuf", "sbuf/MemBlob", "SBuf.cc", "SBuf.h", "MemBlob.cc", "MemBlob.h"});
    int lg = 0; while ((1u << lg) < maxLen + 1) ++lg;
    feat += " L" + std::to_string(lg) + (throwsSeen ? "T" : "") + " n" + std::to_string(std::min<size_t>(ops.size() / 25, 8));
    ctx.feature(feat, !ops.empty());
    for (auto &kv : used) ctx.count("op_" + kv.first, kv.second);
    ctx.count("expected_exceptions_seen", throwsSeen);
    if (skipped) ctx.count("ops_skipped_size_cap_or_grey", skipped);
}

// ---- generator -------------------------------------------------------------------------------------
std::string gen(Rng &r) {
    const int nv = 1 + (int)r.below(6);
    const int nops = 5 + (int)r.below(r.chance(1, 4) ? 200 : 60);
    // alphabet: a few bytes so that searches/trims/compares hit; upper/lower pairs, NUL and 8-bit bytes included
    std::string alpha;
    static const char pool[] = "aAbBzZ09 \t\r\n%:_";
    const int na = 2 + (int)r.below(5);
    for (int k = 0; k < na; ++k) alpha += r.chance(1, 8) ? (char)0 : r.chance(1, 5) ? (char)(0x80 + r.below(128)) : r.chance(1, 8) ? (char)r.next() : pool[r.below(sizeof pool - 1)];
    std::vector<size_t> len(nv, 0); // approximate lengths, only to steer positions
    auto V = [&]() { return (uint64_t)r.below(nv); };
    auto bytes = [&](size_t maxn) { return r.chance(1, 10) ? r.bytes(r.below(maxn + 1)) : r.from(alpha, r.below(maxn + 1)); };
    auto pos = [&](size_t l) -> uint64_t {
        switch (r.below(12)) {
        case 0: return 0; case 1: return l; case 2: return l ? l - 1 : 0; case 3: return l + 1; case 4: return NPOS; case 5: return NPOS - 1 - r.below(3);
        case 6: return 0x7fffffffULL + r.below(3); case 7: return l + r.below(40); case 8: return SBuf::maxSize + r.range(-1, 1);
        default: return r.below(l + 1);
        }
    };
    std::string s = "V " + std::to_string(nv);
    static const char *mut[] = {"as", "as", "cc", "al", "al", "az", "ao", "ao", "ap", "ap", "ap", "ab", "ab", "an", "aw", "aw", "ss", "ss", "pb", "pf", "af", "co", "co", "ch", "ch", "ch", "su", "su", "su", "tr", "lo", "up", "sa", "cl", "rs", "rc", "rq", "ra", "cs", "cs"};
    static const char *obs[] = {"at", "cm", "cm", "cz", "eq", "sw", "fc", "fs", "Rc", "Rs", "f1", "f2", "f3", "f4", "cp", "it"};
    for (int n = 0; n < nops; ++n) {
        Op o;
        o.code = r.chance(7, 10) ? mut[r.below(sizeof mut / sizeof *mut)] : obs[r.below(sizeof obs / sizeof *obs)];
        const Spec *sp_ = findSpec(o.code);
        const uint64_t i = V(), j = r.chance(1, 3) ? i : V(); // self-aliasing one time in three
        const std::string &c = o.code;
        const size_t li = len[i], lj = len[j];
        if (c == "as" || c == "cc" || c == "ap" || c == "eq") { o.a = {i, j}; if (c != "eq") len[i] = c == "ap" ? li + lj : lj; }
        else if (c == "al" || c == "az" || c == "ab" || c == "an") { o.a = {i}; o.bytes = bytes(r.chance(1, 10) ? 300 : 12); if (c[1] == 'z' || c[1] == 'n') o.bytes = cstrOf(o.bytes); len[i] = (c[1] == 'b' || c[1] == 'n' ? li : 0) + o.bytes.size(); }
        else if (c == "ao" || c == "aw") { const uint64_t off = r.below(lj + 1); o.a = {i, j, off, r.chance(1, 3) ? lj - off : r.below(lj - off + 1)}; len[i] = (c == "aw" ? li : 0) + o.a[3]; }
        else if (c == "ss" || c == "su") { o.a = {i, j, pos(lj), pos(lj)}; len[i] = (c == "ss" ? li : 0) + lj / 2; }
        else if (c == "pb") { o.a = {i, (uint64_t)(unsigned char)(r.chance(2, 3) ? alpha[r.below(alpha.size())] : (char)r.next())}; len[i] = li + 1; }
        else if (c == "pf" || c == "af") { o.a = {i, j, r.below(100000)}; len[i] = (c == "af" ? li : 0) + lj + 3; }
        else if (c == "co") { o.a = {i, r.chance(1, 4) ? i : V(), pos(li)}; len[i] = li / 2; }
        else if (c == "ch") { o.a = {i, pos(li), pos(li)}; len[i] = li / 2; }
        else if (c == "tr") { o.a = {i, j, r.below(2), r.below(2)}; }
        else if (c == "lo" || c == "up" || c == "cl" || c == "cs" || c == "it") { o.a = {i}; if (c == "cl") len[i] = 0; }
        else if (c == "sa") { o.a = {i, r.chance(3, 4) && li ? r.below(li) : pos(li), (uint64_t)(unsigned char)alpha[r.below(alpha.size())]}; }
        else if (c == "rs") { o.a = {i, r.chance(1, 4) ? SBuf::maxSize - li + r.range(-2, 3) : r.chance(1, 8) ? NPOS - r.below(3) : r.below(r.chance(1, 5) ? 5000 : 64)}; }
        else if (c == "rc") { o.a = {i, r.chance(1, 4) ? SBuf::maxSize + 1 + r.below(3) : r.chance(1, 8) ? NPOS - r.below(3) : r.below(r.chance(1, 5) ? 5000 : 64)}; }
        else if (c == "rq") { static const uint64_t caps[] = {0, 1, 64, 5000, SBuf::maxSize}; o.a = {i, r.below(r.chance(1, 4) ? 5000 : 40), r.below(r.chance(1, 4) ? 5000 : 40), r.chance(1, 3) ? li + r.below(4) : caps[r.below(5)], r.below(2)}; }
        else if (c == "ra") { o.bytes = bytes(r.chance(1, 10) ? 300 : 12); o.a = {i, o.bytes.size() + (r.coin() ? 0 : r.below(200))}; if (!o.a[1] && !r.chance(1, 8)) o.a[1] = 1 + r.below(9); /* rawAppendStart(0) is a known trouble spot: keep it rare */ len[i] = li + o.bytes.size(); }
        else if (c == "at") { o.a = {i, r.chance(2, 3) && li ? r.below(li) : pos(li)}; }
        else if (c == "cm") { o.a = {i, j, r.below(4), r.chance(1, 2) ? NPOS : pos(std::min(li, lj))}; }
        else if (c == "cz") { o.a = {i, r.below(2), r.chance(1, 2) ? NPOS : pos(li)}; o.bytes = cstrOf(bytes(12)); }
        else if (c == "sw") { o.a = {i, j, r.below(2)}; }
        else if (c == "fc" || c == "Rc") { o.a = {i, (uint64_t)(unsigned char)alpha[r.below(alpha.size())], r.chance(1, 3) ? (c == "fc" ? 0 : NPOS) : pos(li)}; }
        else if (c == "fs" || c == "Rs" || c == "f1" || c == "f2" || c == "f3" || c == "f4") { o.a = {i, j, r.chance(1, 3) ? ((c == "fs" || c == "f1" || c == "f2") ? 0 : NPOS) : pos(li)}; }
        else if (c == "cp") { o.a = {i, r.chance(1, 3) ? pos(li) : r.below(li + 3)}; }
        if (c == "ch" || c == "su" || c == "ss") {
            // pos+n beyond 2^32 with n != npos is a known trouble spot (see DESIGN section 3): keep it, but rare
            uint64_t &p = c == "ch" ? o.a[1] : o.a[2], &nn = c == "ch" ? o.a[2] : o.a[3];
            if (p != NPOS && nn != NPOS && p + nn > 0xffffffffULL && !r.chance(1, 40)) nn = NPOS;
        }
        while ((int)o.a.size() < sp_->nargs) o.a.push_back(0);
        if (len[i] > Cap) len[i] = Cap;
        s += " " + encOp(o);
        // short needles/sets make searches meaningful: now and then cut a variable down to a short piece of another
        if (r.chance(1, 12)) { Op t; t.code = "su"; const uint64_t a = V(), b = V(); t.a = {a, b, r.below(len[b] + 1), 1 + r.below(3)}; len[a] = std::min<size_t>(3, len[b]); s += " " + encOp(t); }
    }
    return s;
}

int drive(Ctx &ctx) {
    // like "memory_pools off": freed blobs go back to malloc so that ASan can see stale accesses
    MemPools::GetInstance().setIdleLimit(0);
    return vh::Loop(ctx, gen, run);
}

} // namespace

VH_REGISTER(C48, drive, "SBuf operation sequences (aliasing, npos/out-of-range args) vs std::string model");
