// C36 Base64 coding round-trips and decodes Basic credentials safely.
// Differential oracle: the base64_* API Squid is built against (include/base64.h; lib/base64.cc or, when
// HAVE_NETTLE_BASE64_H, libnettle) vs an RFC 4648 reference coder, with every output buffer sized exactly
// as the API promises and placed against an inaccessible guard page; Basic credentials through the real
// Auth::Basic::Config::decode().
#include "squid.h"
#include "vh.h"
#include "base64.h"
#include "auth/basic/Config.h"
#include "auth/basic/User.h"
#include "auth/CredentialsCache.h"
#include "auth/UserRequest.h"

#include <sys/mman.h>
#include <unistd.h>

using vh::Ctx;
using vh::Rng;

namespace {

// case encoding: "<op> <param>\n<payload>"
//  R <chunkseed>  encode payload (update in random chunks + final, and encode_raw), compare with RFC 4648, decode back
//  M <chunkseed>  decode payload text (update in random chunks + final) vs strict reference decoder
//  B <variant>    payload = cleartext "user:password"; header = <scheme><sep>base64(payload) -> Auth::Basic::Config::decode()

struct Case { char op; unsigned long param; std::string in; };
std::string enc(char op, unsigned long param, const std::string &in) { return std::string(1, op) + " " + std::to_string(param) + "\n" + in; }
bool dec(const std::string &w, Case &c) {
    const auto nl = w.find('\n');
    if (nl == std::string::npos || nl < 3 || w[1] != ' ') return false;
    c.op = w[0];
    c.param = strtoul(w.substr(2, nl - 2).c_str(), nullptr, 10);
    c.in = w.substr(nl + 1);
    return true;
}

// A buffer whose end touches a PROT_NONE page: one byte past the promised size faults (also inside
// uninstrumented library code, where ASan red zones do not help).
struct Guarded {
    char *base = nullptr, *guard = nullptr;
    size_t cap = 0;
    void init(size_t want) {
        const size_t pg = (size_t)sysconf(_SC_PAGESIZE);
        cap = (want + pg - 1) / pg * pg;
        base = (char *)mmap(nullptr, cap + pg, PROT_READ | PROT_WRITE, MAP_PRIVATE | MAP_ANONYMOUS, -1, 0);
        if (base == MAP_FAILED) abort();
        guard = base + cap;
        if (mprotect(guard, pg, PROT_NONE) != 0) abort();
    }
    char *end(size_t n) { if (!base) init(64 * 1024); if (n > cap) abort(); return guard - n; } // n usable bytes, then the guard
};
Guarded OutArena, InArena;

const char Alphabet[] = "ABCDEFGHIJKLMNOPQRSTUVWXYZabcdefghijklmnopqrstuvwxyz0123456789+/";
int symVal(unsigned char c) { const char *p = c ? strchr(Alphabet, c) : nullptr; return p ? (int)(p - Alphabet) : -1; }
bool isB64Space(unsigned char c) { return c == ' ' || (c >= 9 && c <= 13); }

std::string refEncode(const std::string &x) {
    std::string r;
    size_t i = 0;
    for (; i + 2 < x.size(); i += 3) {
        const uint32_t g = ((uint8_t)x[i] << 16) | ((uint8_t)x[i + 1] << 8) | (uint8_t)x[i + 2];
        r += Alphabet[g >> 18]; r += Alphabet[(g >> 12) & 63]; r += Alphabet[(g >> 6) & 63]; r += Alphabet[g & 63];
    }
    if (x.size() - i == 1) { const uint32_t g = (uint8_t)x[i] << 16; r += Alphabet[g >> 18]; r += Alphabet[(g >> 12) & 63]; r += "=="; }
    else if (x.size() - i == 2) { const uint32_t g = ((uint8_t)x[i] << 16) | ((uint8_t)x[i + 1] << 8); r += Alphabet[g >> 18]; r += Alphabet[(g >> 12) & 63]; r += Alphabet[(g >> 6) & 63]; r += '='; }
    return r;
}

// strict RFC 4648 section 4 decoder (with padding, canonical zero pad bits). why = malformation class
bool refDecode(const std::string &t, std::string &out, std::string &why) {
    out.clear();
    size_t d = 0;
    while (d < t.size() && t[d] != '=') { if (symVal((unsigned char)t[d]) < 0) { why = "bad-character"; return false; } ++d; }
    const size_t p = t.size() - d;
    for (size_t i = d; i < t.size(); ++i) if (t[i] != '=') { why = symVal((unsigned char)t[i]) < 0 ? "bad-character" : "data-after-padding"; return false; }
    if (d % 4 == 1) { why = "dangling-symbol"; return false; }
    if ((d + p) % 4 != 0 || p > 2) { why = "padding-count"; return false; }
    uint32_t acc = 0; int bits = 0;
    for (size_t i = 0; i < d; ++i) { acc = (acc << 6) | (uint32_t)symVal((unsigned char)t[i]); bits += 6; if (bits >= 8) { bits -= 8; out += (char)((acc >> bits) & 0xff); } acc &= 0xffff; }
    if (bits && (acc & ((1u << bits) - 1))) { why = "nonzero-pad-bits"; return false; }
    return true;
}

const char *lenBucket(size_t n) { return n == 0 ? "0" : n <= 3 ? "3" : n < 16 ? "s" : n < 256 ? "m" : n < 2048 ? "l" : "x"; }

// decode `text` through the real API in chunks chosen by `r`; every update call gets exactly
// BASE64_DECODE_LENGTH(chunk) writable bytes. returns accepted?; out = decoded bytes
bool realDecode(const std::string &text, Rng &r, bool chunked, std::string &out, long &calls, bool &overrun) {
    overrun = false;
    struct base64_decode_ctx dctx;
    base64_decode_init(&dctx);
    out.clear();
    size_t pos = 0;
    bool ok = true;
    do {
        size_t n = text.size() - pos;
        if (chunked && n > 0) n = 1 + r.below(r.coin() ? std::min<size_t>(n, 5) : n);
        const size_t promised = BASE64_DECODE_LENGTH(n);
        char *dst = OutArena.end(promised);
        char *src = InArena.end(n); // source also ends at a guard page: over-reads fault
        memcpy(src, text.data() + pos, n);
        size_t dstLen = promised; // nettle < 3.4 style in/out parameter tolerated
        ++calls;
        if (!base64_decode_update(&dctx, &dstLen, reinterpret_cast<uint8_t *>(dst), n, src)) { ok = false; break; }
        if (dstLen > promised) { overrun = true; return true; }
        out.append(dst, dstLen);
        pos += n;
    } while (pos < text.size());
    if (ok && !base64_decode_final(&dctx)) ok = false;
    return ok;
}

void runRoundTrip(Ctx &ctx, const Case &c) {
    Rng r(c.param);
    const bool chunked = c.param != 0;
    const std::string &x = c.in;
    const std::string ref = refEncode(x);
    // encode: update (chunks) + final
    struct base64_encode_ctx ectx;
    base64_encode_init(&ectx);
    std::string e;
    size_t pos = 0;
    long calls = 0;
    do {
        size_t n = x.size() - pos;
        if (chunked && n > 0) n = 1 + r.below(r.coin() ? std::min<size_t>(n, 7) : n);
        const size_t promised = BASE64_ENCODE_LENGTH(n);
        char *dst = OutArena.end(promised);
        char *src = InArena.end(n);
        memcpy(src, x.data() + pos, n);
        const size_t got = base64_encode_update(&ectx, dst, n, reinterpret_cast<const uint8_t *>(src));
        ++calls;
        if (got > promised) { ctx.violation("encode:update-returned-more-than-promised", "base64_encode_update returned " + std::to_string(got) + " > BASE64_ENCODE_LENGTH = " + std::to_string(promised)); return; }
        e.append(dst, got);
        pos += n;
    } while (pos < x.size());
    {
        char *dst = OutArena.end(BASE64_ENCODE_FINAL_LENGTH);
        const size_t got = base64_encode_final(&ectx, dst);
        if (got > BASE64_ENCODE_FINAL_LENGTH) { ctx.violation("encode:final-too-long", "base64_encode_final returned " + std::to_string(got)); return; }
        e.append(dst, got);
    }
    // encode_raw: exactly BASE64_ENCODE_RAW_LENGTH bytes
    std::string raw;
    {
        const size_t promised = BASE64_ENCODE_RAW_LENGTH(x.size());
        char *dst = OutArena.end(promised);
        char *src = InArena.end(x.size());
        memcpy(src, x.data(), x.size());
        base64_encode_raw(dst, x.size(), reinterpret_cast<const uint8_t *>(src));
        raw.assign(dst, promised);
    }
    std::string back;
    bool overrun = false;
    const bool accepted = realDecode(e, r, chunked, back, calls, overrun);
    ctx.count("api_calls", calls);
    ctx.feature(std::string("R:") + lenBucket(x.size()) + ":" + std::to_string(x.size() % 3) + ":" + (chunked ? "chunked" : "oneshot") + ":" + (calls > 8 ? "many" : std::to_string(calls)), !x.empty());
    if (e != ref) ctx.violation("encode:not-rfc4648", "update/final produced " + vh::show(e) + " expected " + vh::show(ref));
    else if (raw != ref) ctx.violation("encode:raw-not-rfc4648", "encode_raw produced " + vh::show(raw) + " expected " + vh::show(ref));
    if (overrun) ctx.violation("decode:dst-length-exceeds-promise", "base64_decode_update reported more output than BASE64_DECODE_LENGTH(src_length)");
    else if (!accepted) ctx.violation("roundtrip:decode-rejected-own-encoding", "decoder rejected " + vh::show(e));
    else if (back != x) ctx.violation("roundtrip:decode-of-encode-differs", "decoded " + vh::show(back) + " original " + vh::show(x));
}

void runMutated(Ctx &ctx, const Case &c) {
    Rng r(c.param);
    const bool chunked = c.param != 0;
    std::string got;
    long calls = 0;
    bool overrun = false;
    const bool accepted = realDecode(c.in, r, chunked, got, calls, overrun);
    ctx.count("api_calls", calls);
    if (overrun) { ctx.violation("decode:dst-length-exceeds-promise", "base64_decode_update reported more output than BASE64_DECODE_LENGTH(src_length)"); return; }

    std::string stripped;
    bool hadSpace = false;
    for (unsigned char ch : c.in) { if (isB64Space(ch)) hadSpace = true; else stripped += (char)ch; }
    std::string ref, why;
    const bool valid = refDecode(stripped, ref, why);
    std::string feat = std::string("M:") + lenBucket(c.in.size()) + ":" + (valid ? "valid" : why) + ":" + (hadSpace ? "ws" : "nows") + ":" + (accepted ? "+" : "-") + ":" + (chunked ? "c" : "o");
    if (valid && hadSpace) {
        // embedded white space: RFC 4648 leaves "ignore or reject" to the application; Squid's decoder skips HT..CR and SP
        if (accepted && got != ref) ctx.count("ws_tolerant_decode_differs");
        ctx.grey();
        return;
    }
    ctx.feature(feat, !c.in.empty());
    if (valid) {
        if (!accepted) ctx.violation("decode:rejected-valid", "decoder rejected well-formed " + vh::show(c.in));
        else if (got != ref) ctx.violation("decode:wrong-bytes", "decoded " + vh::show(got) + " expected " + vh::show(ref));
    } else if (accepted) {
        ctx.violation("decode:accepted-malformed:" + why, "decoder accepted malformed (" + why + ") input " + vh::show(c.in) + " as " + vh::show(got));
    }
}

struct BasicCfg : public Auth::Basic::Config { BasicCfg() { casesensitive = 1; utf8 = 0; } };

void runBasic(Ctx &ctx, const Case &c) {
    static BasicCfg *cfg = new BasicCfg; // never destroyed: users keep a raw pointer to their config
    Auth::Basic::User::Cache()->reset(); // no credentials carried from one case to the next
    static const char *const prefixes[] = {"Basic ", "Basic  ", "basic ", "BASIC\t", "Basic \t ", "x "};
    const std::string &clear = c.in;
    // token variants: 0 = well-formed; 1 = all '=' padding dropped; 2 = one of two '=' dropped (both malformed, RFC 4648 3.2/4)
    std::string token = refEncode(clear);
    int variant = (int)((c.param / 12) % 3);
    if (variant == 1 && !token.empty() && token.back() == '=') token.resize(token.find_last_not_of('=') + 1);
    else if (variant == 2 && token.size() >= 2 && token.compare(token.size() - 2, 2, "==") == 0) token.resize(token.size() - 1);
    else variant = 0;
    const std::string header = std::string(prefixes[c.param % 6]) + token + ((c.param / 6) % 2 ? "\n" : "");

    std::string gotUser, gotPass;
    bool haveUser = false, havePass = false;
    {
        char *h = (char *)malloc(header.size() + 1); // exact size: over-reads are ASan reports
        memcpy(h, header.c_str(), header.size() + 1);
        Auth::UserRequest::Pointer req = cfg->decode(h, nullptr, nullptr);
        free(h);
        if (req != nullptr && req->user() != nullptr) {
            if (const auto *bu = dynamic_cast<const Auth::Basic::User *>(req->user().getRaw())) {
                if (bu->username()) { haveUser = true; gotUser = bu->username(); }
                if (bu->passwd) { havePass = true; gotPass = bu->passwd; }
            }
        }
    }
    Auth::Basic::User::Cache()->reset();
    ctx.ubsanGate({"basic/Config.cc", "base64.c"});

    const auto colon = clear.find(':');
    const bool hasNul = clear.find('\0') != std::string::npos;
    const bool hasCrLf = clear.find_first_of("\r\n") != std::string::npos;
    std::string feat = std::string("B:") + std::to_string(c.param % 12) + ":" + lenBucket(clear.size()) + ":" + (colon == std::string::npos ? "nocolon" : colon == 0 ? "emptyuser" : "user") +
                       ":" + (colon != std::string::npos && clear.find(':', colon + 1) != std::string::npos ? "morecolons" : "") + (haveUser ? "U" : "") + (havePass ? "P" : "");
    // grey zones (DESIGN 7.1 and documented Squid policy): NUL inside credentials (c-string API), CR/LF in
    // credentials (deliberately refused), no colon / empty password (refused with a deny message)
    if (hasNul || hasCrLf || colon == std::string::npos || colon + 1 == clear.size()) { ctx.grey(); return; }
    if (variant) {
        // all symbols are valid but the token's length/padding is not: malformed base64 must not yield credentials
        ctx.feature(feat + ":malformed" + std::to_string(variant));
        ctx.count("basic_malformed_tokens");
        if (haveUser && havePass)
            ctx.violation(std::string("basic:accepted-malformed-token:") + (variant == 1 ? "padding-missing" : "padding-short"),
                          "header " + vh::show(header) + " (padding of the well-formed token removed) was decoded to user " + vh::show(gotUser) + " password " + vh::show(gotPass));
        return;
    }
    ctx.feature(feat);
    const std::string expUser = clear.substr(0, colon), expPass = clear.substr(colon + 1);
    if (!haveUser || !havePass) { ctx.violation("basic:credentials-not-decoded", "header " + vh::show(header) + " gave " + (haveUser ? "user" : "no user") + "/" + (havePass ? "password" : "no password")); return; }
    if (gotUser != expUser) ctx.violation("basic:wrong-username", "username " + vh::show(gotUser) + " expected " + vh::show(expUser));
    else if (gotPass != expPass) ctx.violation("basic:wrong-password", "password " + vh::show(gotPass) + " expected " + vh::show(expPass));
}

void run(Ctx &ctx, const std::string &w) {
    Case c;
    if (!dec(w, c)) return;
    switch (c.op) {
    case 'R': runRoundTrip(ctx, c); break;
    case 'M': runMutated(ctx, c); break;
    case 'B': runBasic(ctx, c); break;
    default: break;
    }
}

std::string genBytes(Rng &r, size_t maxLen) {
    size_t n;
    switch (r.below(16)) {
    case 0: n = r.below(5); break;
    case 1: n = r.below(maxLen + 1); break;
    case 2: n = maxLen - r.below(4); break;
    case 3: case 4: case 5: n = r.below(600); break;
    default: n = r.below(48); break;
    }
    switch (r.below(4)) {
    case 0: return std::string(n, (char)r.next());
    case 1: { std::string s = r.bytes(n); for (auto &ch : s) ch = (char)(r.coin() ? 0xff : 0x00); return s; }
    default: return r.bytes(n);
    }
}

std::string mutate(Rng &r, std::string t) {
    const int k = 1 + (int)r.below(3);
    for (int i = 0; i < k; ++i) {
        const size_t pos = t.empty() ? 0 : r.below(t.size() + (r.chance(1, 3) ? 1 : 0));
        switch (r.below(12)) {
        case 0: if (pos < t.size()) t[pos] = r.from("-_.,*!@#$%^&()~\\|<>?:;\"'{}[]`", 1)[0]; break;   // outside the alphabet (incl. url-safe)
        case 1: if (pos < t.size()) t[pos] = (char)r.next(); break;
        case 2: if (pos < t.size()) t[pos] = '='; break;
        case 3: if (pos < t.size()) t.erase(pos, 1); break;
        case 4: t.insert(std::min(pos, t.size()), 1, Alphabet[r.below(64)]); break;
        case 5: t.insert(std::min(pos, t.size()), 1, r.from(" \t\r\n\v\f", 1)[0]); break;
        case 6: t += std::string(1 + r.below(3), '='); break;
        case 7: t.resize(t.size() - std::min<size_t>(t.size(), 1 + r.below(3))); break;
        case 8: { // non-canonical pad bits: bump the last data symbol
            size_t d = t.find('='); if (d == std::string::npos) d = t.size();
            if (d > 0) { const int v = symVal((unsigned char)t[d - 1]); if (v >= 0) t[d - 1] = Alphabet[(v + 1 + r.below(3)) & 63]; }
            break; }
        case 9: t += refEncode(r.bytes(r.below(5))); break;   // concatenated encodings (data after padding)
        case 10: if (pos < t.size()) t[pos] = '\0'; break;
        default: if (!t.empty()) { size_t e = t.find_last_not_of('='); t.resize(e == std::string::npos ? 0 : e + 1); } break; // drop padding
        }
    }
    return t;
}

std::string gen(Rng &r) {
    const unsigned long chunkSeed = r.chance(1, 3) ? 0 : 1 + r.below(1000000);
    switch (r.below(10)) {
    case 0: case 1: case 2: return enc('R', chunkSeed, genBytes(r, 8192));
    case 3: case 4: case 5: case 6: {
        std::string t = refEncode(genBytes(r, r.chance(1, 8) ? 8192 : 40));
        if (r.chance(9, 10)) t = mutate(r, t);
        else if (r.coin()) t = r.from(std::string(Alphabet) + "==", r.below(12));
        return enc('M', chunkSeed, t);
    }
    default: {
        std::string user, pass;
        const std::string ab = "abcXYZ019 .-_@\\/%+=\xc3\xa9\xff";
        user = r.from(ab, r.below(r.chance(1, 20) ? 300 : 12));
        pass = r.from(ab + ":", r.below(r.chance(1, 20) ? 300 : 12));
        if (r.chance(1, 12)) user.insert(r.below(user.size() + 1), 1, r.pick({"\r", "\n", "\t", "\x01"})[0]);
        if (r.chance(1, 12)) pass.insert(r.below(pass.size() + 1), 1, r.pick({"\r", "\n", ":", "\x7f"})[0]);
        std::string clear = user + (r.chance(1, 15) ? "" : ":") + pass;
        if (r.chance(1, 40)) clear.insert(r.below(clear.size() + 1), 1, '\0');
        if (r.chance(1, 30)) clear = r.bytes(r.below(40));
        return enc('B', r.below(12) + 12 * (r.chance(1, 4) ? 1 + r.below(2) : 0), clear);
    }
    }
}

int drive(Ctx &ctx) {
    if (!ctx.replaying) {
        // exhaustive: every byte string of length <= 2 (quick) / <= 3 (thorough): round trip; and every text of
        // length <= 2 (quick) / <= 3 over all byte values as decoder input
        const int maxLen = ctx.thorough ? 3 : 2;
        long n = 0;
        uint64_t idx = 0;
        for (int len = 0; len <= maxLen; ++len) {
            const uint64_t total = 1ULL << (8 * len);
            for (uint64_t v = 0; v < total; ++v, ++idx) {
                if ((int)(idx % (uint64_t)ctx.nshards) != ctx.shard) continue;
                std::string s(len, '\0');
                for (int i = 0; i < len; ++i) s[i] = (char)(v >> (8 * i));
                { const std::string w = enc('R', 0, s); ctx.begin(w); run(ctx, w); ++n; }
                if (len >= 2) { const std::string w = enc('R', 1 + v % 7, s); ctx.begin(w); run(ctx, w); ++n; }
                { const std::string w = enc('M', 0, s); ctx.begin(w); run(ctx, w); ++n; }
            }
        }
        // all texts of length 4 (and 5 in thorough) over a small decoder-relevant alphabet
        static const char small[] = {'A', 'Q', 'g', '/', '=', ' ', '-', '\n'};
        for (int len = 4; len <= (ctx.thorough ? 6 : 5); ++len) {
            const uint64_t total = 1ULL << (3 * len);
            for (uint64_t v = 0; v < total; ++v, ++idx) {
                if ((int)(idx % (uint64_t)ctx.nshards) != ctx.shard) continue;
                std::string s(len, '\0');
                for (int i = 0; i < len; ++i) s[i] = small[(v >> (3 * i)) & 7];
                const std::string w = enc('M', v % 3, s); ctx.begin(w); run(ctx, w); ++n;
            }
        }
        ctx.count("exhaustive_cases", n);
        ctx.exhaustive = true;
    }
    return vh::Loop(ctx, gen, run);
}

} // namespace

VH_REGISTER(C36, drive, "base64 coder vs RFC 4648 reference with guard-page buffers; Basic credential split via Auth::Basic::Config::decode");
