// C27 Integer parsing is exact and overflow-safe.
// Differential oracle: Parser::Tokenizer::int64 / udec64, httpHeaderParseOffset, httpHeaderParseInt
// against an arbitrary-precision (saturating __int128) reference; UBSan reports inside the parsers gate.
#include "squid.h"
#include "vh.h"
#include "parser/Tokenizer.h"
#include "HttpHeaderTools.h"
#include "sbuf/SBuf.h"
#include "base/TextException.h"

#include <climits>

using vh::Ctx;
using vh::Rng;

namespace {

typedef __int128 i128;

// case encoding: "<fn> <base> <sign> <limit>\n<payload bytes>"   fn: T=int64 U=udec64 O=offset I=int
struct Case { char fn; int base; int sign; long limit; std::string in; };

std::string enc(const Case &c) {
    return std::string(1, c.fn) + " " + std::to_string(c.base) + " " + std::to_string(c.sign) + " " + std::to_string(c.limit) + "\n" + c.in;
}
bool dec(const std::string &w, Case &c) {
    auto nl = w.find('\n');
    if (nl == std::string::npos) return false;
    char fn; int b, s; long l;
    if (sscanf(w.substr(0, nl).c_str(), "%c %d %d %ld", &fn, &b, &s, &l) != 4) return false;
    c = {fn, b, s, l, w.substr(nl + 1)};
    return true;
}

int digitVal(unsigned char c) {
    if (c >= '0' && c <= '9') return c - '0';
    if (c >= 'a' && c <= 'z') return c - 'a' + 10;
    if (c >= 'A' && c <= 'Z') return c - 'A' + 10;
    return 99;
}

int bitsOf(int64_t v) { uint64_t u = v < 0 ? ~(uint64_t)v : (uint64_t)v; return u ? 64 - __builtin_clzll(u) : 0; }

struct Ref { enum { Fail, Ok, Grey } kind; int64_t value; size_t consumed; };

// reference for Tokenizer::int64 semantics as stated by the property:
// value of the maximal digit run (after optional sign and base prefix) iff it fits int64
Ref refInt64(const std::string &whole, int base, bool allowSign, long limit) {
    std::string s = (limit >= 0 && (size_t)limit < whole.size()) ? whole.substr(0, limit) : whole;
    size_t i = 0;
    bool neg = false;
    if (s.empty()) return {Ref::Fail, 0, 0};
    if (allowSign) {
        if (s[i] == '-') { neg = true; ++i; } else if (s[i] == '+') ++i;
        if (i >= s.size()) return {Ref::Fail, 0, 0};
    }
    if ((base == 0 || base == 16) && s[i] == '0' && i + 1 < s.size() && (s[i + 1] | 32) == 'x') {
        // "0x" must be followed by a hex digit to be a prefix; otherwise the text is ambiguous
        // ("0" followed by junk 'x', or a malformed hex number): not judged
        if (i + 2 >= s.size() || digitVal(s[i + 2]) >= 16) return {Ref::Grey, 0, 0};
        i += 2;
        base = 16;
    }
    if (base == 0) base = (s[i] == '0') ? 8 : 10;
    size_t start = i;
    i128 v = 0;
    bool huge = false;
    while (i < s.size() && digitVal(s[i]) < base) {
        if (!huge) { v = v * base + digitVal(s[i]); if (v > ((i128)1 << 70)) huge = true; }
        ++i;
    }
    if (i == start) return {Ref::Fail, 0, 0};
    if (neg) v = -v;
    if (huge || v > (i128)INT64_MAX || v < (i128)INT64_MIN) return {Ref::Fail, 0, 0};
    return {Ref::Ok, (int64_t)v, i};
}

std::string digitsOf(i128 v, int base, bool upper) {
    if (v == 0) return "0";
    std::string r;
    while (v > 0) { int d = (int)(v % base); r.insert(r.begin(), (char)(d < 10 ? '0' + d : (upper ? 'A' : 'a') + d - 10)); v /= base; }
    return r;
}

std::string genNumber(Rng &r, int base) {
    const int b = base == 0 ? (int)r.pick(std::vector<int>{8, 10, 16}) : base;
    std::string digits;
    switch (r.below(6)) {
    case 0: { // power of base +- 2
        i128 p = 1; int k = (int)r.below(b == 16 ? 17 : b == 10 ? 21 : 23);
        for (int i = 0; i < k; ++i) p *= b;
        p += r.range(-2, 2); if (p < 0) p = 0;
        digits = digitsOf(p, b, r.coin());
        break; }
    case 1: { // INT64 / INT32 / UINT64 boundaries +- 3
        static const i128 lim[] = {(i128)INT64_MAX, (i128)INT64_MAX + 1, ((i128)1 << 64) - 1, (i128)1 << 64, (i128)INT32_MAX, (i128)INT32_MAX + 1, (i128)UINT32_MAX, (i128)UINT32_MAX + 1, ((i128)1 << 32) + 1};
        i128 p = lim[r.below(9)] + r.range(-3, 3);
        digits = digitsOf(p, b, r.coin());
        break; }
    case 2: { // multiples around cutoff: INT64_MAX/base, with last digit varied
        i128 p = ((i128)INT64_MAX + (r.coin() ? 1 : 0)) / b;
        p = p * b + r.below(b);
        if (r.coin()) p += (i128)b * r.range(-1, 1);
        digits = digitsOf(p, b, r.coin());
        break; }
    case 3: { // random length digit string
        size_t n = 1 + r.below(r.chance(1, 4) ? 45 : 20);
        for (size_t i = 0; i < n; ++i) { int d = (int)r.below(b); digits += (char)(d < 10 ? '0' + d : (r.coin() ? 'a' : 'A') + d - 10); }
        break; }
    case 4: digits = std::to_string(r.below(100000)); if (b == 8) digits = digitsOf(r.below(100000), 8, false); break;
    default: digits = digitsOf((i128)r.next(), b, r.coin()); break;
    }
    if (r.chance(1, 5)) digits.insert(0, r.below(4), '0');
    std::string s;
    if (r.chance(1, 3)) s += r.coin() ? '-' : '+';
    if (base == 16 && r.chance(1, 3)) s += r.coin() ? "0x" : "0X";
    if (base == 0) { if (b == 16) s += r.coin() ? "0x" : "0X"; else if (b == 8) s += "0"; }
    s += digits;
    switch (r.below(8)) { // trailing context
    case 0: s += r.pick({" ", ",", ";", "-", "x", "g", "8", "9", "a", "F", "\r\n", "\0x", "+", "."}); break;
    case 1: s += (char)r.next(); break;
    case 2: s += r.bytes(r.below(4)); break;
    default: break;
    }
    if (r.chance(1, 40)) s.insert(0, r.pick({" ", "\t", "++", "--", "+-", "0x", "x"}));
    if (r.chance(1, 60)) s = r.bytes(r.below(6));
    return s;
}

std::string gen(Rng &r) {
    Case c;
    switch (r.below(10)) {
    case 0: case 1: case 2: case 3: case 4: c.fn = 'T'; break;
    case 5: c.fn = 'U'; break;
    case 6: case 7: c.fn = 'O'; break;
    default: c.fn = 'I'; break;
    }
    c.base = c.fn == 'T' ? (int)r.pick(std::vector<int>{0, 8, 10, 16}) : 10;
    c.sign = c.fn == 'T' ? (int)r.below(2) : (c.fn == 'U' ? 0 : 1);
    c.in = genNumber(r, c.base);
    c.limit = -1;
    if ((c.fn == 'T' || c.fn == 'U') && r.chance(1, 3)) c.limit = (long)r.below(c.in.size() + 3);
    if (c.fn == 'O' || c.fn == 'I') { for (auto &ch : c.in) if (ch == '\0') ch = '0'; }
    return enc(c);
}

void run(Ctx &ctx, const std::string &w) {
    Case c;
    if (!dec(w, c)) return;
    const SBuf::size_type lim = c.limit < 0 ? SBuf::npos : (SBuf::size_type)c.limit;
    std::string feat = std::string(1, c.fn) + std::to_string(c.base) + (c.sign ? "s" : "u") + (c.limit < 0 ? "n" : "l");
    if (c.fn == 'T') {
        Parser::Tokenizer tok(SBuf(c.in.data(), c.in.size()));
        int64_t got = 0x5a5a5a5a5a5a5a5aLL;
        const bool ok = tok.int64(got, c.base, c.sign != 0, lim);
        const Ref ref = refInt64(c.in, c.base, c.sign != 0, c.limit);
        ctx.ubsanGate({"Tokenizer.cc"});
        const size_t consumed = c.in.size() - tok.remaining().length();
        if (ref.kind == Ref::Grey) { ctx.grey(); return; }
        feat += ok ? "+" : "-";
        feat += std::to_string(ref.kind == Ref::Ok ? bitsOf(ref.value) : 99);
        ctx.feature(feat);
        if (ok && ref.kind == Ref::Fail)
            ctx.violation("int64:accepted-unrepresentable:base" + std::to_string(c.base), "int64() returned " + std::to_string(got) + " for input whose digit run does not fit int64 / has no digits");
        else if (!ok && ref.kind == Ref::Ok)
            ctx.violation("int64:rejected-representable:base" + std::to_string(c.base), "int64() failed but the digits denote " + std::to_string(ref.value));
        else if (ok && (got != ref.value))
            ctx.violation("int64:wrong-value:base" + std::to_string(c.base), "int64() returned " + std::to_string(got) + " expected " + std::to_string(ref.value));
        else if (ok && consumed != ref.consumed)
            ctx.violation("int64:wrong-consumed:base" + std::to_string(c.base), "consumed " + std::to_string(consumed) + " expected " + std::to_string(ref.consumed));
        else if (!ok && consumed != 0)
            ctx.violation("int64:consumed-on-failure", "failed parse consumed " + std::to_string(consumed) + " bytes");
    } else if (c.fn == 'U') {
        Parser::Tokenizer tok(SBuf(c.in.data(), c.in.size()));
        enum { Val, Insufficient, Error } out = Error;
        int64_t got = -1;
        try { got = tok.udec64("verif", lim); out = Val; }
        catch (const Parser::InsufficientInput &) { out = Insufficient; }
        catch (const TextException &) { out = Error; }
        ctx.ubsanGate({"Tokenizer.cc"});
        const Ref ref = refInt64(c.in, 10, false, c.limit);
        // expected: empty -> Insufficient; no digits/overflow -> Error; digits reach end of buffer -> Insufficient; else value
        int exp;
        if (c.in.empty()) exp = Insufficient;
        else if (ref.kind != Ref::Ok) exp = Error;
        else if (ref.consumed == c.in.size()) exp = Insufficient;
        else exp = Val;
        feat += std::to_string((int)out);
        ctx.feature(feat);
        if (c.limit == 0) { ctx.grey(); return; } // documented "buggy caller"
        if ((int)out != exp) {
            // limit cutting the digit run short while more buffer follows: value is legitimately returned
            ctx.violation("udec64:outcome", "udec64 outcome " + std::to_string((int)out) + " expected " + std::to_string(exp));
        } else if (out == Val && got != ref.value)
            ctx.violation("udec64:wrong-value", "udec64 returned " + std::to_string(got) + " expected " + std::to_string(ref.value));
        else if (out == Val && c.in.size() - tok.remaining().length() != ref.consumed)
            ctx.violation("udec64:wrong-consumed", "udec64 consumed wrong length");
    } else if (c.fn == 'O') {
        int64_t got = 0x5a5a5a5a;
        char *end = nullptr;
        const bool ok = httpHeaderParseOffset(c.in.c_str(), &got, &end);
        ctx.ubsanGate({"HttpHeaderTools.cc"});
        // reference: strtoll-like: optional isspace run, optional sign, maximal decimal run
        const std::string s = c.in.c_str();
        size_t i = 0;
        while (i < s.size() && isspace((unsigned char)s[i])) ++i;
        const Ref ref = refInt64(s.substr(i), 10, true, -1);
        feat += ok ? "+" : "-";
        feat += i ? "w" : "";
        feat += std::to_string(ref.kind == Ref::Ok ? bitsOf(ref.value) : 99);
        ctx.feature(feat);
        if (ok && ref.kind != Ref::Ok) ctx.violation("offset:accepted-unrepresentable", "httpHeaderParseOffset returned " + std::to_string(got));
        else if (!ok && ref.kind == Ref::Ok) ctx.violation("offset:rejected-representable", "httpHeaderParseOffset failed for " + std::to_string(ref.value));
        else if (ok && got != ref.value) ctx.violation("offset:wrong-value", "got " + std::to_string(got) + " expected " + std::to_string(ref.value));
        else if (ok && (size_t)(end - c.in.c_str()) != i + ref.consumed) ctx.violation("offset:wrong-consumed", "endPtr at " + std::to_string(end - c.in.c_str()) + " expected " + std::to_string(i + ref.consumed));
    } else if (c.fn == 'I') {
        int got = 0x5a5a5a5a;
        const std::string s = c.in.c_str();
        const int ok = httpHeaderParseInt(s.c_str(), &got);
        ctx.ubsanGate({"HttpHeaderTools.cc"});
        size_t i = 0;
        while (i < s.size() && isspace((unsigned char)s[i])) ++i;
        const Ref ref = refInt64(s.substr(i), 10, true, -1);
        const bool fitsInt = ref.kind == Ref::Ok && ref.value >= INT_MIN && ref.value <= INT_MAX;
        feat += ok ? "+" : "-";
        feat += std::to_string(ref.kind == Ref::Ok ? bitsOf(ref.value) : 99);
        ctx.feature(feat);
        if (ok && ref.kind == Ref::Ok && !fitsInt)
            ctx.violation("int:accepted-out-of-range", "httpHeaderParseInt returned " + std::to_string(got) + " for " + std::to_string(ref.value) + " (does not fit int)");
        else if (ok && ref.kind == Ref::Fail && !(got == 0))
            ctx.violation("int:accepted-garbage", "httpHeaderParseInt returned " + std::to_string(got) + " for input without a representable number");
        else if (ok && fitsInt && got != (int)ref.value)
            ctx.violation("int:wrong-value", "got " + std::to_string(got) + " expected " + std::to_string(ref.value));
        else if (!ok && fitsInt && i == 0 && isdigit((unsigned char)s[0]))
            ctx.violation("int:rejected-representable", "httpHeaderParseInt failed for " + std::to_string(ref.value));
    }
}

int drive(Ctx &ctx) {
    if (!ctx.replaying && ctx.shard == 0) {
        // exhaustive part: every digit string within +-2 of each power of the base and of the INT64 limits,
        // all bases, signs, with and without prefix/leading zero, with limits
        long n = 0;
        for (int base : {0, 8, 10, 16}) {
            for (int b : {8, 10, 16}) {
                if (base != 0 && base != b) continue;
                std::vector<i128> centres;
                i128 p = 1;
                for (int k = 0; k < 70 && p < ((i128)1 << 66); ++k) { centres.push_back(p); p *= b; }
                centres.push_back((i128)INT64_MAX); centres.push_back((i128)INT64_MAX + 1); centres.push_back((i128)1 << 64);
                centres.push_back((i128)INT32_MAX); centres.push_back((i128)UINT32_MAX);
                for (i128 cen : centres) for (int d = -2; d <= 2; ++d) {
                    i128 v = cen + d; if (v < 0) continue;
                    for (int sign = 0; sign < 3; ++sign) for (int allow = 0; allow < 2; ++allow) for (int lz = 0; lz < 2; ++lz) {
                        std::string s = sign == 1 ? "-" : sign == 2 ? "+" : "";
                        if (base == 0) s += b == 16 ? "0x" : b == 8 ? "0" : "";
                        else if (base == 16 && lz) s += "0x";
                        if (lz && base != 16) s += "00";
                        if (base == 0 && b == 10 && lz) continue;
                        s += digitsOf(v, b, false);
                        for (long lim : {-1L, (long)s.size(), (long)s.size() - 1}) {
                            Case c{'T', base, allow, lim, s + (d & 1 ? "" : "z")};
                            std::string w = enc(c);
                            ctx.begin(w); run(ctx, w); ++n;
                        }
                        if (b == 10 && base == 10 && sign != 0 == false) {
                            for (char fn : {'U', 'O', 'I'}) { Case c{fn, 10, 1, -1, s + ","}; std::string w = enc(c); ctx.begin(w); run(ctx, w); ++n; }
                        } else if (b == 10 && base == 10) {
                            for (char fn : {'O', 'I'}) { Case c{fn, 10, 1, -1, s}; std::string w = enc(c); ctx.begin(w); run(ctx, w); ++n; }
                        }
                    }
                }
            }
        }
        ctx.count("boundary_cases_enumerated", n);
    }
    return vh::Loop(ctx, gen, run);
}

} // namespace

VH_REGISTER(C27, drive, "integer parsers vs arbitrary-precision reference + UBSan gate");
