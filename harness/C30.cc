// C30 URI parsing is canonical and validates authority.
// Oracle: an RFC 3986 reference splitter (scheme, userinfo, host, port text, path-and-query) run next to the real
// AnyP::Uri::parse() for every request method (CONNECT authority-form included); accepted URIs are checked
// for host/port sanity against the written text and Squid's canonical form is parsed again (fixpoint).
#include "squid.h"
#include "vh.h"
#include "anyp/Uri.h"
#include "anyp/UriScheme.h"
#include "http/RequestMethod.h"
#include "sbuf/SBuf.h"
#include "SquidConfig.h"

#include <arpa/inet.h>

using vh::Ctx;
using vh::Rng;

namespace {

// case encoding: "<METHOD> <flags>\n<uri bytes>"
//  flags: bit0 check_hostnames, bit1 allow_underscore, bits 2..4 uri_whitespace (0 strip,1 allow,2 encode,3 chop,4 deny)
struct Case { std::string method; unsigned flags; std::string uri; };

bool dec(const std::string &w, Case &c) {
    const auto nl = w.find('\n');
    const auto sp = w.find(' ');
    if (nl == std::string::npos || sp == std::string::npos || sp > nl || sp == 0) return false;
    c.method = w.substr(0, sp);
    c.flags = (unsigned)strtoul(w.substr(sp + 1, nl - sp - 1).c_str(), nullptr, 10);
    c.uri = w.substr(nl + 1);
    return true;
}

bool isAlpha(unsigned char c) { return (c | 32) >= 'a' && (c | 32) <= 'z'; }
bool isDigit(unsigned char c) { return c >= '0' && c <= '9'; }
bool isUnreserved(unsigned char c) { return isAlpha(c) || isDigit(c) || c == '-' || c == '.' || c == '_' || c == '~'; }
bool isSubDelim(unsigned char c) { return c && strchr("!$&'()*+,;=", c); }
bool isPchar(unsigned char c) { return isUnreserved(c) || isSubDelim(c) || c == ':' || c == '@' || c == '%'; }
std::string lower(std::string s) { for (auto &c : s) if (c >= 'A' && c <= 'Z') c = (char)(c + 32); return s; }

// reference view of an absolute-URI / authority-form request target -----------------------------
struct Ref {
    bool split = false;        // scheme "://" authority rest recognised (or host:port for CONNECT)
    bool ambiguous = false;    // the authority cannot be split the RFC way (unbracketed colons, junk after ']', ...)
    std::string why;
    std::string scheme, userinfo, host, portText, rest;
    bool hasUserinfo = false, bracketed = false, hasPort = false;
};

void splitHostPort(const std::string &hp, Ref &r) {
    if (!hp.empty() && hp[0] == '[') {
        const auto close = hp.find(']');
        if (close == std::string::npos) { r.ambiguous = true; r.why = "unclosed-bracket"; return; }
        r.bracketed = true;
        r.host = hp.substr(1, close - 1);
        const std::string tail = hp.substr(close + 1);
        if (tail.empty()) return;
        if (tail[0] != ':') { r.ambiguous = true; r.why = "junk-after-bracket"; return; }
        r.hasPort = true;
        r.portText = tail.substr(1);
        return;
    }
    const auto first = hp.find(':');
    if (first == std::string::npos) { r.host = hp; return; }
    if (hp.find(':', first + 1) != std::string::npos) { r.ambiguous = true; r.why = "unbracketed-colons"; return; }
    r.host = hp.substr(0, first);
    r.hasPort = true;
    r.portText = hp.substr(first + 1);
}

Ref refSplit(const std::string &u, bool connect) {
    Ref r;
    if (connect) {
        // authority-form (RFC 9110 9.3.6 / RFC 9112 3.2.3): uri-host ":" port, nothing else
        r.split = true;
        if (!u.empty() && u[0] == '[') { splitHostPort(u, r); return r; }
        const auto first = u.find(':');
        if (first == std::string::npos) { r.host = u; return r; }
        r.host = u.substr(0, first);
        r.hasPort = true;
        r.portText = u.substr(first + 1); // may contain further ':' or '/': then it is simply not decimal
        return r;
    }
    size_t i = 0;
    if (u.empty() || !isAlpha((unsigned char)u[0])) return r;
    while (i < u.size() && (isAlpha((unsigned char)u[i]) || isDigit((unsigned char)u[i]) || u[i] == '+' || u[i] == '-' || u[i] == '.')) ++i;
    if (i >= u.size() || u[i] != ':') return r;
    r.scheme = u.substr(0, i);
    if (u.compare(i + 1, 2, "//") != 0) return r;
    const size_t a = i + 3;
    size_t e = u.find_first_of("/?#", a);
    if (e == std::string::npos) e = u.size();
    std::string auth = u.substr(a, e - a);
    r.rest = u.substr(e);
    r.split = true;
    const auto at = auth.rfind('@');
    if (at != std::string::npos) { r.hasUserinfo = true; r.userinfo = auth.substr(0, at); auth = auth.substr(at + 1); }
    splitHostPort(auth, r);
    return r;
}

// port text -> value; 0 = all digits but outside 1..65535; -1 = not *DIGIT; -2 = empty
long portValue(const std::string &t) {
    if (t.empty()) return -2;
    for (unsigned char c : t) if (!isDigit(c)) return -1;
    size_t z = 0; while (z < t.size() && t[z] == '0') ++z;
    if (t.size() - z > 5) return 0;
    const long v = z == t.size() ? 0 : atol(t.c_str() + z);
    return (v >= 1 && v <= 65535) ? v : 0;
}

int schemeDefault(const std::string &lowerScheme) { // IANA / RFC defaults
    static const struct { const char *s; int p; } t[] = {{"http", 80}, {"https", 443}, {"ftp", 21}, {"coap", 5683}, {"coaps", 5684}, {"wais", 210}, {"whois", 43}};
    for (const auto &e : t) if (lowerScheme == e.s) return e.p;
    return 0;
}

bool ipBytes(const std::string &text, bool bracketHint, unsigned char out[16]) {
    std::string t = text;
    if (t.size() >= 2 && t.front() == '[' && t.back() == ']') t = t.substr(1, t.size() - 2);
    (void)bracketHint;
    struct in6_addr a6; struct in_addr a4;
    if (inet_pton(AF_INET6, t.c_str(), &a6) == 1) { memcpy(out, &a6, 16); return true; }
    if (inet_pton(AF_INET, t.c_str(), &a4) == 1) { memset(out, 0, 10); out[10] = out[11] = 0xff; memcpy(out + 12, &a4, 4); return true; }
    return false;
}

std::string str(const SBuf &b) { return std::string(b.rawContent(), b.length()); }

const char *uriLenBucket(size_t n) { return n < 16 ? "s" : n < 64 ? "m" : n < 300 ? "l" : n < 4000 ? "x" : "xx"; }

void run(Ctx &ctx, const std::string &w) {
    Case c;
    if (!dec(w, c)) return;
    AnyP::UriScheme::Init();
    Config.onoff.check_hostnames = c.flags & 1;
    Config.onoff.allow_underscore = (c.flags >> 1) & 1;
    Config.uri_whitespace = (int)((c.flags >> 2) & 7) % 5;
    Config.appendDomain = nullptr;
    Config.appendDomainLen = 0;

    const HttpRequestMethod method{SBuf(c.method.c_str())};
    const bool connect = method == Http::METHOD_CONNECT;
    const std::string sfx = connect ? ":connect" : "";

    AnyP::Uri uri;
    const bool accepted = uri.parse(method, SBuf(c.uri.data(), c.uri.size()));
    ctx.ubsanGate({"anyp/Uri.cc", "anyp/Host.cc", "anyp/UriScheme.cc", "rfc1738.c"});

    // G0: bytes no URI can contain (CTL, SP, DEL, 8-bit): uri_whitespace policies and 8-bit leniency are not judged
    bool g0 = false;
    for (unsigned char ch : c.uri) if (ch <= 0x20 || ch >= 0x7f) g0 = true;
    if (g0) { ctx.count(accepted ? "nonuri_bytes_accepted" : "nonuri_bytes_rejected"); ctx.grey(); return; }

    if (!connect && (c.uri == "*")) { ctx.grey(); return; } // asterisk-form is not an absolute URI

    const Ref ref = refSplit(c.uri, connect);
    const bool isUrn = !connect && lower(c.uri.substr(0, 4)) == "urn:";
    const long pv = ref.hasPort ? portValue(ref.portText) : -2;
    std::string feat = (connect ? "C:" : isUrn ? "N:" : "U:") + std::string(accepted ? "+" : "-") + ":" + std::to_string(c.flags & 3) + ":";
    if (!ref.split) feat += "nosplit";
    else if (ref.ambiguous) feat += "amb-" + ref.why;
    else {
        const std::string ls = lower(ref.scheme);
        feat += (schemeDefault(ls) ? ls : ls.empty() ? "" : "other") + std::string(ref.hasUserinfo ? ":ui" : "") + (ref.bracketed ? ":v6" : "") +
                ":p" + (!ref.hasPort ? "none" : pv == -2 ? "empty" : pv == -1 ? "nondec" : pv == 0 ? "range" : ref.portText[0] == '0' ? "lz" : "ok") +
                ":r" + (ref.rest.empty() ? "0" : std::string(1, ref.rest[0])) + (ref.rest.find('?') != std::string::npos ? "q" : "") + (ref.rest.find('#') != std::string::npos ? "f" : "");
        size_t dots = 0; for (char ch : ref.host) if (ch == '.') ++dots;
        feat += ":h" + std::string(ref.host.empty() ? "0" : ref.host.find("..") != std::string::npos ? "dd" : ref.host[0] == '.' ? "ld" : ref.host.back() == '.' ? "td" : dots > 3 ? "4" : std::to_string(dots)) + uriLenBucket(ref.host.size());
    }
    feat += std::string(":") + uriLenBucket(c.uri.size());

    if (isUrn) {
        // urn: has no authority; only the canonical-form fixpoint is judged
        if (!accepted) { ctx.feature(feat); return; }
        ctx.feature(feat);
        AnyP::Uri again;
        const std::string canon = str(uri.absolute());
        if (!again.parse(method, SBuf(canon.data(), canon.size()))) { ctx.violation("uri:reparse-rejected:urn", "canonical form " + vh::show(canon) + " of accepted " + vh::show(c.uri) + " is rejected"); return; }
        if (strcmp(again.host(), uri.host()) != 0) ctx.violation("uri:reparse-host-differs:urn", "NID " + vh::show(uri.host()) + " became " + vh::show(again.host()) + " via " + vh::show(canon));
        else if (str(again.path()) != str(uri.path())) {
            const std::string p = str(uri.path());
            bool clean = true; for (unsigned char ch : p) if (!isPchar(ch) && ch != '/' && ch != '?') clean = false;
            if (clean && p.find('?') != std::string::npos) ctx.violation("uri:reparse-path-differs:query", "path " + vh::show(p) + " became " + vh::show(str(again.path())) + " via canonical form " + vh::show(canon));
            else if (clean) ctx.violation("uri:reparse-path-differs", "path " + vh::show(p) + " became " + vh::show(str(again.path())) + " via canonical form " + vh::show(canon));
            else ctx.count("reparse_path_normalised");
        }
        return;
    }

    if (!ref.split || ref.ambiguous) {
        // no RFC reading of this text: acceptance is Squid's documented leniency (or a plain rejection); not judged
        if (accepted) ctx.count("unsplittable_accepted");
        ctx.grey();
        return;
    }
    ctx.feature(feat);
    if (!accepted) {
        if (ref.hasPort && pv > 0 && !ref.host.empty()) ctx.count("rejected_with_valid_port");
        return; // rejecting is never forbidden by the statement
    }

    // ---- accepted: sentence 3 (bad ports must be rejected)
    if (ref.hasPort && pv == -1) { ctx.violation("uri:port-not-decimal-accepted" + sfx, "accepted " + vh::show(c.uri) + " whose port text " + vh::show(ref.portText) + " is not a decimal number; port()=" + (uri.port() ? std::to_string(*uri.port()) : "none")); return; }
    if (ref.hasPort && pv == 0) { ctx.violation("uri:port-out-of-range-accepted" + sfx, "accepted " + vh::show(c.uri) + " whose port " + vh::show(ref.portText, 40) + " is outside 1..65535; port()=" + (uri.port() ? std::to_string(*uri.port()) : "none")); return; }

    // ---- sentence 1: port
    const std::string ls = lower(ref.scheme);
    if (!uri.port().has_value() || *uri.port() < 1) { ctx.violation("uri:port-invalid-value" + sfx, "accepted " + vh::show(c.uri) + " without a port in 1..65535"); return; }
    if (pv > 0) {
        if (*uri.port() != pv) ctx.violation("uri:port-differs-from-written" + sfx, "port() = " + std::to_string(*uri.port()) + " but the URI says " + ref.portText + " in " + vh::show(c.uri));
    } else if (!connect) { // no port or an empty one: scheme default
        const int d = schemeDefault(ls);
        if (d && *uri.port() != d) ctx.violation("uri:default-port-wrong:" + ls, "port() = " + std::to_string(*uri.port()) + " for " + vh::show(c.uri) + "; the default port of " + ls + " is " + std::to_string(d));
        else if (!d) ctx.count("default_port_of_unlisted_scheme");
    }

    // ---- sentence 1: host
    const std::string h = uri.host();
    for (unsigned char ch : h) if (ch >= 'A' && ch <= 'Z') { ctx.violation("uri:host-not-lowercase", "host() = " + vh::show(h) + " for " + vh::show(c.uri)); return; }
    const bool looksIp = uri.hostIsNumeric() || h.find(':') != std::string::npos;
    if (!looksIp && (h.empty() || h[0] == '.' || h.back() == '.' || h.find("..") != std::string::npos)) {
        // keys name the cause in the shared tail of parse(): dots stripped after the empty-host test; host() cut at SQUIDHOSTNAMELEN-1
        const std::string key = h.empty() ? "uri:empty-host-accepted" : ref.host.size() > 255 ? "uri:host-empty-label:truncated" : "uri:host-empty-label";
        ctx.violation(key, "host() = " + vh::show(h, 300) + " (" + std::to_string(h.size()) + " bytes) for accepted " + vh::show(c.uri, 300));
        return;
    }
    // host vs the written one (observe_at: parsed fields vs reference parser), only for hosts the RFC grammar allows
    {
        unsigned char want[16], got[16];
        bool regName = !ref.bracketed;
        for (unsigned char ch : ref.host) if (!(isUnreserved(ch) || isSubDelim(ch) || ch == '%')) regName = false;
        if (ref.bracketed || ipBytes(ref.host, false, want)) {
            if (ipBytes(ref.host, ref.bracketed, want)) {
                if (!ipBytes(h, false, got) || memcmp(want, got, 16) != 0) ctx.violation("uri:host-differs", "host() = " + vh::show(h) + " is not the address written in " + vh::show(c.uri));
            } else ctx.count("bad_ip_literal_accepted");
        } else if (uri.hostIsNumeric()) ctx.count("name_parsed_as_ip"); // inet_aton forms (127.1, 0x7f.1): resolver leniency, not judged
        else if (!regName) ctx.count("non_regname_host_accepted");
        else if (ref.host.size() > 255) ctx.count("overlong_host_accepted");
        else {
            std::string exp = lower(ref.host);
            while (!exp.empty() && exp.back() == '.') exp.pop_back();
            if (h != exp) ctx.violation("uri:host-differs", "host() = " + vh::show(h) + " expected " + vh::show(exp) + " for " + vh::show(c.uri));
        }
    }

    // ---- path-and-query as written (fragment and non-URI characters are not judged)
    if (!connect && ref.rest.find('#') == std::string::npos) {
        bool clean = true; for (unsigned char ch : ref.rest) if (!isPchar(ch) && ch != '/' && ch != '?') clean = false;
        const std::string exp = (!ref.rest.empty() && ref.rest[0] == '/') ? ref.rest : "/" + ref.rest;
        if (clean && str(uri.path()) != exp) ctx.violation("uri:path-differs", "path() = " + vh::show(str(uri.path())) + " expected " + vh::show(exp) + " for " + vh::show(c.uri));
    }

    // ---- sentence 2: canonical form is a fixpoint
    const std::string canon = connect ? str(uri.authority(true)) : str(uri.absolute());
    AnyP::Uri again;
    const bool againOk = again.parse(method, SBuf(canon.data(), canon.size()));
    {
        // two known root causes get one key each, whatever way the fixpoint then breaks:
        //  - an IPv6 host() without brackets makes authority() ambiguous
        //  - a bracketed literal whose content is not an IP address is accepted (brackets simply dropped) by the non-CONNECT path
        unsigned char tmp[16];
        const char *cause = nullptr;
        if (h.find(':') != std::string::npos && h[0] != '[') cause = "unbracketed-ipv6-host";
        else if (ref.bracketed && !ipBytes(ref.host, true, tmp)) cause = "invalid-ip-literal-accepted";
        if (cause) {
            if (!againOk || strcmp(again.host(), uri.host()) != 0 || again.port() != uri.port())
                ctx.violation(std::string("uri:reparse-differs:") + cause, "host() = " + vh::show(h) + "; canonical form " + vh::show(canon) + " of " + vh::show(c.uri) +
                              (againOk ? " re-parses as host " + vh::show(again.host()) + " port " + (again.port() ? std::to_string(*again.port()) : "none") : " is rejected"));
            return;
        }
    }
    if (!againOk && canon.size() >= MAX_URL) {
        // percent-encoding made the canonical form longer than the parser's own limit: the '?' -> %3F expansion is the
        // same defect as the query key; growth from encoding non-URI characters is normalisation (not judged)
        // (only when the '?' really was encoded; since the repair 383b82e it is not)
        if (str(uri.path()).find('?') != std::string::npos && canon.find("%3F") != std::string::npos && c.uri.find("%3F") == std::string::npos && c.uri.find("%3f") == std::string::npos)
            ctx.violation("uri:reparse-path-differs:query", "canonical form grows to " + std::to_string(canon.size()) + " bytes ('?' percent-encoded) and is rejected");
        else ctx.count("canonical_form_too_long");
        return;
    }
    if (!againOk) { ctx.violation("uri:reparse-rejected" + sfx, "canonical form " + vh::show(canon) + " of accepted " + vh::show(c.uri) + " is rejected"); return; }
    if ((AnyP::ProtocolType)again.getScheme() != (AnyP::ProtocolType)uri.getScheme() || str(again.getScheme().image()) != str(uri.getScheme().image()))
        ctx.violation("uri:reparse-scheme-differs", "scheme " + str(uri.getScheme().image()) + " became " + str(again.getScheme().image()) + " via " + vh::show(canon));
    else if (strcmp(again.host(), uri.host()) != 0)
        ctx.violation("uri:reparse-host-differs", "host " + vh::show(h) + " became " + vh::show(again.host()) + " via canonical form " + vh::show(canon) + " of " + vh::show(c.uri));
    else if (again.port() != uri.port())
        ctx.violation("uri:reparse-port-differs" + sfx, "port " + std::to_string(*uri.port()) + " became " + (again.port() ? std::to_string(*again.port()) : "none") + " via canonical form " + vh::show(canon) + " of " + vh::show(c.uri));
    else if (str(again.path()) != str(uri.path())) {
        const std::string p = str(uri.path());
        bool clean = true; for (unsigned char ch : p) if (!isPchar(ch) && ch != '/' && ch != '?') clean = false;
        if (clean && p.find('?') != std::string::npos)
            ctx.violation("uri:reparse-path-differs:query", "path " + vh::show(p) + " became " + vh::show(str(again.path())) + " via canonical form " + vh::show(canon) + " ('?' percent-encoded: /a?b and /a%3Fb collide)");
        else if (clean)
            ctx.violation("uri:reparse-path-differs" + sfx, "path " + vh::show(p) + " became " + vh::show(str(again.path())) + " via canonical form " + vh::show(canon));
        else ctx.count("reparse_path_normalised"); // '#', '[', ']', '"' ... are not URI path characters; encoding them is normalisation
    }
}

// ---- generators -----------------------------------------------------------------------------

const std::vector<const char *> Methods = {"GET", "GET", "GET", "POST", "PUT", "HEAD", "DELETE", "OPTIONS", "TRACE", "PATCH", "PURGE", "PROPFIND", "MKCOL", "REPORT", "FOO", "get"};

std::string genLabel(Rng &r) {
    const size_t n = r.chance(1, 30) ? (r.coin() ? 63 : 64) : 1 + r.below(8);
    std::string l = r.from(r.chance(1, 4) ? "abcdefghijklmnopqrstuvwxyzABCDEFGHIJKLMNOPQRSTUVWXYZ0123456789-_" : "abcxyz019", n);
    return l;
}

std::string genHost(Rng &r, bool &bracket) {
    bracket = false;
    switch (r.below(16)) {
    case 0: case 1: case 2: case 3: case 4: case 5: { // names
        std::string h;
        const int labels = 1 + (int)r.below(4);
        for (int i = 0; i < labels; ++i) { if (i) h += '.'; h += genLabel(r); }
        if (r.chance(1, 3)) h = r.pick({"example.com", "EXAMPLE.COM", "Example.Org", "localhost", "a.b.c.d.e.f", "xn--bcher-kva.example", "www.example.com"});
        switch (r.below(14)) { // dot anomalies
        case 0: h += "."; break;
        case 1: h += ".."; break;
        case 2: h = "." + h; break;
        case 3: { const auto p = h.find('.'); if (p != std::string::npos) h.insert(p, "."); else h += "..x"; break; }
        case 4: h = r.pick({".", "..", "...", "a.", "A..", ".a."}); break;
        default: break;
        }
        return h;
    }
    case 6: case 7: { // IPv4 and look-alikes
        if (r.chance(1, 5)) return r.pick({"0.0.0.0", "255.255.255.255", "256.1.1.1", "1.2.3", "127.1", "0x7f.0.0.1", "2130706433", "1.2.3.4.5", "01.02.03.04", "1.2.3.4."});
        return std::to_string(r.below(256)) + "." + std::to_string(r.below(256)) + "." + std::to_string(r.below(256)) + "." + std::to_string(r.below(256));
    }
    case 8: case 9: case 10: { // bracketed IPv6
        bracket = true;
        if (r.chance(1, 3)) return r.pick({"::1", "::", "2001:db8::1", "2001:DB8::A", "fe80::1", "::ffff:1.2.3.4", "0:0:0:0:0:0:0:1", "1:2:3:4:5:6:7:8", "::FFFF:10.0.0.1", "2001:db8:0:0:1:0:0:1", "ff02::2"});
        std::string h;
        const int groups = 8;
        const int gap = r.chance(1, 2) ? (int)r.below(7) : -1;
        for (int i = 0; i < groups; ++i) {
            if (i == gap) { h += i ? ":" : "::"; i += (int)r.below(3); if (i >= groups - 1) { if (h.size() < 2 || h.substr(h.size() - 2) != "::") h += ":"; break; } continue; }
            char b[8]; snprintf(b, sizeof b, r.coin() ? "%x" : "%X", (unsigned)r.below(65536));
            h += b;
            if (i < groups - 1) h += ":";
        }
        return h;
    }
    case 11: { bracket = r.coin(); return r.pick({"::1", "foo", "1.2.3.4", "v1.x", "fe80::1%25eth0", ":", "", "::1]", "[::1", "1::2::3", "12345::1", "g::1", "::1 "}); } // bad literals
    case 12: return r.from("abc-._~!$&'()*+,;=%41", 1 + r.below(10));  // reg-name with sub-delims / pct
    case 13: return std::string(r.pick(std::vector<int>{200, 254, 255, 256, 257, 300, 1000}), 'a');                 // long single label
    case 14: { std::string h; while (h.size() < (size_t)r.pick(std::vector<int>{250, 255, 256, 260})) h += genLabel(r) + "."; h.pop_back(); return h; }
    default: return "";
    }
}

std::string genPort(Rng &r) {
    switch (r.below(12)) {
    case 0: case 1: case 2: return std::to_string(r.pick(std::vector<int>{1, 21, 80, 443, 3128, 8080, 65535, 65534, 5683, 5684, 43, 210}));
    case 3: return std::to_string(1 + r.below(65535));
    case 4: return r.pick({"0", "65536", "65537", "70000", "99999", "100000", "4294967296", "4294967376", "4294967297", "4295032831", "2147483648", "18446744073709551696", "18446744073709551616", "9223372036854775808", "99999999999999999999999999999999"});
    case 5: return r.pick({"-1", "+80", "-80", "80abc", "abc", "0x50", "1e3", "80.", "80.0", "8o", "65535x", "x80", "80:90", ":80", "80-", "%38%30", "80,", "80;81", "٨"});
    case 6: return r.pick({"080", "00080", "0080", "00", "000", "065535", "0000000000000000000080", "01"});
    case 7: return "";
    case 8: { // 2^32 k + small : the atoi/wraparound family
        static const uint64_t base[] = {1ULL << 16, 1ULL << 31, 1ULL << 32, 1ULL << 33, 1ULL << 63};
        return std::to_string(base[r.below(5)] + r.below(70000));
    }
    case 9: return std::to_string(r.below(100000)) + r.pick({"", "a", " ", "/", "#"});
    default: return std::to_string(65530 + r.below(12));
    }
}

std::string genPath(Rng &r) {
    std::string p;
    switch (r.below(12)) {
    case 0: return "";
    case 1: return "/";
    case 2: p = r.pick({"/a?b", "/a?b=c", "?q", "/?", "/a%3Fb", "/x?y?z", "/a?b#c", "#f", "/a#f", "/index.html?a=1&b=2", "/p;v=1?q", "/a/b/../c/./d"}); break;
    default: {
        const int segs = 1 + (int)r.below(4);
        for (int i = 0; i < segs; ++i) { p += '/'; p += r.from(r.chance(1, 4) ? "abc-._~!$&'()*+,;=:@%41" : "abcdefxyz0123", r.below(9)); }
        if (r.chance(1, 4)) p += "?" + r.from("abc=&%20/?:@", r.below(12));
        if (r.chance(1, 25)) p += "#" + r.from("frag", r.below(5));
    }
    }
    if (r.chance(1, 25)) p += r.pick({"[", "]", "\"", "<>", "\\", "^", "`", "{|}", " ", "\t", "\x80", "\r\n"});
    if (r.chance(1, 60)) p += "/" + std::string(r.pick(std::vector<int>{300, 4000, 8100, 8190, 9000}), 'p');
    return p;
}

std::string genUri(Rng &r) {
    if (r.chance(1, 25)) { // urn
        std::string u = r.pick({"urn:", "URN:", "urn:"});
        u += r.pick({"isbn", "ISBN", "uuid", "x", "a-b", "-ab", "ab-", "ietf", "a1234567890123456789012345678901", "a12345678901234567890123456789012"});
        u += ":";
        u += r.pick({"0451450523", "rfc:2648", "a/b", "a?b", "a?+r?=q", "x%20y", "", "a#f", "a:b:c"});
        return u;
    }
    std::string u = r.pick({"http", "http", "http", "http", "https", "https", "ftp", "HTTP", "hTtP", "Https", "coap", "coaps", "wais", "whois", "icp", "htcp", "icy", "tls", "ssl", "foo", "FOO", "x-y.z+1", "a", "abcdefghijklmnop", "abcdefghijklmnopq", "1http", "ht tp", "http-", ""});
    u += r.chance(1, 40) ? r.pick({":", ":/", "//", ":///", "::"}) : "://";
    if (r.chance(1, 5)) u += std::string(r.pick({"user", "user:pass", "u%40x:p%3A", "a@b", "", ":", "USER:PASS", "u:p:q", "%zz", "a!$&'()*+,;=", "user:80"})) + "@";
    bool bracket;
    const std::string h = genHost(r, bracket);
    u += bracket ? "[" + h + "]" : h;
    if (r.chance(3, 5)) u += ":" + genPort(r);
    u += genPath(r);
    return u;
}

std::string genAuthorityForm(Rng &r) {
    bool bracket;
    const std::string h = genHost(r, bracket);
    std::string u = bracket ? "[" + h + "]" : h;
    if (r.chance(9, 10)) u += ":" + genPort(r);
    if (r.chance(1, 20)) u += r.pick({"/", "/x", "?", "#", ":", "@"});
    if (r.chance(1, 40)) u = "http://" + u;
    return u;
}

std::string mutateBytes(Rng &r, std::string s) {
    if (s.empty()) return s;
    const size_t pos = r.below(s.size());
    switch (r.below(5)) {
    case 0: s.erase(pos, 1); break;
    case 1: s.insert(pos, 1, r.from(":/@[]?#%.-_ 0a\x80", 1)[0]); break;
    case 2: s[pos] = (char)r.range(0x21, 0x7e); break;
    case 3: s.insert(pos, 1, s[pos]); break;
    default: s[pos] = (char)r.next(); break;
    }
    return s;
}

std::string gen(Rng &r) {
    unsigned flags = r.chance(3, 4) ? 2u : (unsigned)r.below(4);       // default config: check_hostnames off, allow_underscore on
    if (r.chance(1, 8)) flags |= (unsigned)r.below(5) << 2;            // uri_whitespace policies (only matter for non-URI bytes)
    std::string m, u;
    if (r.chance(1, 5)) { m = "CONNECT"; u = genAuthorityForm(r); }
    else {
        m = r.pick(Methods);
        u = genUri(r);
        if ((m == "OPTIONS" || m == "TRACE") && r.chance(1, 10)) u = "*";
    }
    if (r.chance(1, 10)) u = mutateBytes(r, u);
    return m + " " + std::to_string(flags) + "\n" + u;
}

int drive(Ctx &ctx) {
    if (!ctx.replaying && ctx.shard == 0) {
        // small exhaustive scope: every method x a dictionary of port spellings x hosts x paths
        static const char *ports[] = {"", ":", ":1", ":80", ":443", ":65535", ":65536", ":0", ":00", ":080", ":4294967376", ":4294967296", ":18446744073709551696", ":80abc", ":-1", ":+80", ":abc", ":0x50", ":80:90"};
        static const std::string longHost = std::string(254, 'a') + ".b"; // 256 bytes: host() keeps 255, ending in '.'
        const char *hosts[] = {"example.com", "EXAMPLE.com.", "a..b", ".a", ".", "1.2.3.4", "[::1]", "[2001:DB8::1]", "[::]", "[::ffff:1.2.3.4]", "[foo]", "[[::1]", "::1", "a_b", "127.1", longHost.c_str()};
        static const char *paths[] = {"", "/", "/a?b", "?b", "/a%3Fb", "/a#f", "/a;b=c/d"};
        static const char *schemes[] = {"http", "HTTPS", "ftp", "coaps", "whois", "foo"};
        long n = 0;
        for (const char *m : {"GET", "POST", "OPTIONS", "CONNECT"}) for (const char *s : schemes) for (const char *h : hosts) for (const char *p : ports) for (const char *pa : paths) {
            const bool con = !strcmp(m, "CONNECT");
            if (con && (s != schemes[0] || pa != paths[0])) continue;
            const std::string u = con ? std::string(h) + p : std::string(s) + "://" + h + p + pa;
            for (unsigned flags : {2u, 1u}) {
                const std::string w = std::string(m) + " " + std::to_string(flags) + "\n" + u;
                ctx.begin(w); run(ctx, w); ++n;
            }
        }
        ctx.count("dictionary_cases", n);
    }
    return vh::Loop(ctx, gen, run);
}

} // namespace

VH_REGISTER(C30, drive, "AnyP::Uri::parse vs RFC 3986 reference splitter: host/port validation, canonical-form fixpoint, all methods");
