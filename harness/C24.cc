// C24 Chunked decoding is exact and rejects malformed framing.
// Differential oracle: Http::One::TeChunkedParser driven exactly like its real callers
// (HttpStateData::decodeAndWriteReplyBody, ConnStateData::handleChunkedRequestBody:
//  setPayloadBuffer(); parse(inBuf); inBuf = remaining(); drain the MemBuf; repeat while
//  needsMoreSpace()) against an independent RFC 9112 section 7.1 recogniser/decoder written
// from the property statement. Inputs: grammar-generated chunkings, constructed malformed
// classes, truncations, boundary chunk sizes, random byte edits; delivered through
// arbitrary input segmentations and output-space limits.
#include "squid.h"
#include "vh.h"
#include "base/TextException.h"
#include "http/one/TeChunkedParser.h"
#include "MemBuf.h"
#include "parser/Tokenizer.h"
#include "sbuf/SBuf.h"
#include "SquidConfig.h"

#include <climits>

using vh::Ctx;
using vh::Rng;

namespace {

// ---------------------------------------------------------------- reference decoder

struct Ref {
    enum Kind { Complete, Incomplete, Malformed, Grey } kind = Incomplete;
    std::string body;    // decoded bytes available in the input
    size_t consumed = 0; // for Complete: length of the chunked message
    size_t errPos = 0;   // for Malformed: offset of the first byte the grammar cannot accept
    std::string cls;     // malformed class / grey reason
    int chunks = 0;
    bool ext = false, quoted = false, trailers = false, lz = false, bws = false;
};

bool isTchar(unsigned char c) { return isalnum(c) || (c && strchr("!#$%&'*+-.^_`|~", c)); }
bool isBws(unsigned char c) { return c == ' ' || c == '\t'; }
int hexv(unsigned char c) {
    if (c >= '0' && c <= '9') return c - '0';
    if (c >= 'a' && c <= 'f') return c - 'a' + 10;
    if (c >= 'A' && c <= 'F') return c - 'A' + 10;
    return -1;
}

// is line[0..len) a valid field-line (complete) or a prefix of one (partial)?
bool fieldLineOk(const std::string &in, size_t b, size_t e) {
    size_t i = b;
    while (i < e && isTchar(in[i])) ++i;
    if (i == b) return false;
    if (i == e) return true; // only a name so far (acceptable as a prefix; a complete line needs ':')
    if (in[i] != ':') return false;
    for (++i; i < e; ++i) {
        const unsigned char c = in[i];
        if (!(c == '\t' || c == ' ' || (c >= 0x21 && c <= 0x7e) || c >= 0x80)) return false;
    }
    return true;
}

Ref refDecode(const std::string &in, const bool relaxed) {
    Ref r;
    const size_t n = in.size();
    size_t pos = 0;
    auto fin = [&](Ref::Kind k, size_t at, const char *cls) -> Ref { r.kind = k; r.errPos = at; r.cls = cls; return r; };
    // a grammar failure at a position where Squid's relaxed parser documents extra whitespace (VT, FF, bare CR)
    auto lineFail = [&](size_t at, const char *cls) -> Ref {
        if (relaxed && at < n && (in[at] == '\v' || in[at] == '\f' || in[at] == '\r')) return fin(Ref::Grey, at, "relaxed-ws");
        return fin(Ref::Malformed, at, cls);
    };
    for (;;) {
        // chunk-size = 1*HEXDIG, value must fit in 63 bits
        const size_t ds = pos;
        unsigned __int128 v = 0;
        bool over = false;
        while (pos < n && hexv(in[pos]) >= 0) {
            if (!over) { v = v * 16 + hexv(in[pos]); if (v > (unsigned __int128)INT64_MAX) over = true; }
            ++pos;
        }
        if (pos == ds) return pos == n ? fin(Ref::Incomplete, n, "") : fin(Ref::Malformed, pos, "size-nonhex");
        if (over) return fin(Ref::Malformed, ds, "size-overflow");
        if (pos == n) return fin(Ref::Incomplete, n, "");
        if (pos - ds > 1 && in[ds] == '0' && v != 0) r.lz = true;
        const bool zeroX = (pos - ds == 1 && in[ds] == '0' && (in[pos] | 32) == 'x');
        bool anyExt = false;
        size_t q;
        // chunk-ext = *( BWS ";" BWS chunk-ext-name [ BWS "=" BWS chunk-ext-val ] )
        for (;;) {
            q = pos;
            while (q < n && isBws(in[q])) ++q;
            if (q == n) return fin(Ref::Incomplete, n, "");
            if (in[q] != ';') break;
            r.ext = true;
            if (q > pos) r.bws = true;
            ++q;
            size_t b = q;
            while (q < n && isBws(in[q])) ++q;
            if (q > b) r.bws = true;
            if (q == n) return fin(Ref::Incomplete, n, "");
            const size_t ns = q;
            while (q < n && isTchar(in[q])) ++q;
            if (q == ns) return lineFail(q, "bad-ext");
            if (q == n) return fin(Ref::Incomplete, n, "");
            pos = q;
            anyExt = true;
            size_t e = q;
            while (e < n && isBws(in[e])) ++e;
            if (e == n) return fin(Ref::Incomplete, n, "");
            if (in[e] != '=') continue; // valueless extension
            if (e > q) r.bws = true;
            ++e;
            b = e;
            while (e < n && isBws(in[e])) ++e;
            if (e > b) r.bws = true;
            if (e == n) return fin(Ref::Incomplete, n, "");
            if (in[e] == '"') { // quoted-string = DQUOTE *( qdtext / quoted-pair ) DQUOTE
                r.quoted = true;
                ++e;
                for (;;) {
                    if (e == n) return fin(Ref::Incomplete, n, "");
                    const unsigned char c = in[e];
                    if (c == '"') { ++e; break; }
                    if (c == '\\') {
                        if (e + 1 == n) return fin(Ref::Incomplete, n, "");
                        const unsigned char d = in[e + 1];
                        if (d == '\t' || d == ' ' || (d >= 0x21 && d <= 0x7e) || d >= 0x80) { e += 2; continue; }
                        return fin(Ref::Malformed, e + 1, "bad-ext");
                    }
                    if (c == '\t' || c == ' ' || c == 0x21 || (c >= 0x23 && c <= 0x5b) || (c >= 0x5d && c <= 0x7e) || c >= 0x80) { ++e; continue; }
                    return fin(Ref::Malformed, e, "bad-ext");
                }
            } else { // token
                const size_t ts = e;
                while (e < n && isTchar(in[e])) ++e;
                if (e == ts) return lineFail(e, "bad-ext");
                if (e == n) return fin(Ref::Incomplete, n, "");
            }
            pos = e;
        }
        // q: first byte after optional BWS, not ';'
        if (q > pos) {
            // BWS not introducing an extension is outside the grammar; Squid documents tolerating it
            // (Bug 4492: IBM_HTTP_Server sends SP after chunk-size): not judged
            if (in[q] == '\r') return fin(Ref::Grey, q, "bws-before-crlf");
            return lineFail(q, anyExt ? "bad-ext" : "size-nonhex");
        }
        if (in[q] != '\r') {
            const char *cls = in[q] == '\n' ? "missing-crlf:size-line" : anyExt ? "bad-ext" : zeroX ? "size-0x" : "size-nonhex";
            return lineFail(q, cls);
        }
        if (q + 1 == n) return fin(Ref::Incomplete, n, "");
        if (in[q + 1] != '\n') {
            if (relaxed) return fin(Ref::Grey, q, "relaxed-ws"); // bare CR is relaxed whitespace
            return fin(Ref::Malformed, q + 1, "missing-crlf:size-line");
        }
        pos = q + 2;
        ++r.chunks;
        if (v == 0) break; // last-chunk
        const uint64_t want = (uint64_t)v;
        const size_t avail = (uint64_t)(n - pos) < want ? n - pos : (size_t)want;
        r.body.append(in, pos, avail);
        pos += avail;
        if (avail < want) return fin(Ref::Incomplete, n, "");
        if (pos == n) return fin(Ref::Incomplete, n, "");
        if (in[pos] != '\r') return fin(Ref::Malformed, pos, "missing-crlf:after-data");
        if (pos + 1 == n) return fin(Ref::Incomplete, n, "");
        if (in[pos + 1] != '\n') return fin(Ref::Malformed, pos + 1, "missing-crlf:after-data");
        pos += 2;
    }
    // trailer-section = *( field-line CRLF ), then CRLF. The statement does not constrain how malformed
    // trailers are treated, so anything but CRLF-terminated well-formed field lines is not judged.
    const size_t ts = pos;
    for (;;) {
        if (n - ts >= 60000) return fin(Ref::Grey, ts, "trailer-size-limit"); // Squid caps trailers at 64KB
        if (pos == n) return fin(Ref::Incomplete, n, "");
        if (in[pos] == '\r') {
            if (pos + 1 == n) return fin(Ref::Incomplete, n, "");
            if (in[pos + 1] == '\n') { pos += 2; break; }
            return fin(Ref::Grey, pos, "trailer-syntax");
        }
        if (in[pos] == '\n') return fin(Ref::Grey, pos, "trailer-bare-lf");
        r.trailers = true;
        size_t e = pos;
        while (e < n && in[e] != '\r' && in[e] != '\n') ++e;
        if (!fieldLineOk(in, pos, e)) return fin(Ref::Grey, pos, "trailer-syntax");
        if (e == n) return fin(Ref::Incomplete, n, "");
        if (in[e] == '\n') return fin(Ref::Grey, e, "trailer-bare-lf");
        if (e + 1 == n) return fin(Ref::Incomplete, n, "");
        if (in[e + 1] != '\n') return fin(Ref::Grey, e, "trailer-syntax");
        if (in.find(':', pos) >= e) return fin(Ref::Grey, pos, "trailer-syntax");
        pos = e + 2;
    }
    if (pos - ts >= 60000) return fin(Ref::Grey, ts, "trailer-size-limit");
    r.kind = Ref::Complete;
    r.consumed = pos;
    return r;
}

// ---------------------------------------------------------------- case encoding

// "<relaxed> <initcap> <maxcap> <drain> <genclass> <splits>\n<payload>"
// splits: "-" one shot, "B" byte by byte, or ascending comma separated cut offsets
struct Case {
    int relaxed = 0;
    long initCap = 2048, maxCap = 2000000000L;
    unsigned long drain = 0; // 0: drain everything after every parse(); else seed of partial drains
    char gen = 'C';
    std::string splits = "-";
    std::string payload;
};

std::string enc(const Case &c) {
    return std::to_string(c.relaxed) + " " + std::to_string(c.initCap) + " " + std::to_string(c.maxCap) + " " + std::to_string(c.drain) + " " +
           std::string(1, c.gen) + " " + c.splits + "\n" + c.payload;
}

bool dec(const std::string &w, Case &c) {
    const auto nl = w.find('\n');
    if (nl == std::string::npos) return false;
    char g = 0;
    char sp[4096];
    if (nl >= sizeof(sp)) return false;
    if (sscanf(w.substr(0, nl).c_str(), "%d %ld %ld %lu %c %4000s", &c.relaxed, &c.initCap, &c.maxCap, &c.drain, &g, sp) != 6) return false;
    c.gen = g;
    c.splits = sp;
    c.payload = w.substr(nl + 1);
    if (c.maxCap < 2) c.maxCap = 2; // a MemBuf of capacity 1 never has potential space (driver artefact)
    if (c.initCap < 1) c.initCap = 1;
    if (c.initCap > c.maxCap) c.initCap = c.maxCap;
    return true;
}

std::vector<size_t> cutsOf(const Case &c) {
    std::vector<size_t> cuts;
    const size_t n = c.payload.size();
    if (c.splits == "-") return cuts;
    if (c.splits == "B") { for (size_t i = 1; i < n; ++i) cuts.push_back(i); return cuts; }
    size_t last = 0;
    const char *p = c.splits.c_str();
    while (*p) {
        char *end = nullptr;
        unsigned long v = strtoul(p, &end, 10);
        if (end == p) break;
        if (v > n) v = n;
        if (v < last) v = last;
        cuts.push_back(v);
        last = v;
        p = *end == ',' ? end + 1 : end;
        if (*end != ',' ) break;
    }
    return cuts;
}

// ---------------------------------------------------------------- Squid side

struct Got {
    enum Kind { Complete, NeedMore, Rejected, ErrorNoThrow, Stalled } kind = NeedMore;
    std::string out;
    size_t consumed = 0;
    std::string what; // exception text
    long parses = 0;
    bool spaceStops = false;
};

Got runSquid(const Case &c) {
    Got g;
    const std::vector<size_t> cuts = cutsOf(c);
    Config.onoff.relaxed_header_parser = c.relaxed;
    Http1::TeChunkedParser parser;
    MemBuf out;
    out.init((mb_size_t)c.initCap, (mb_size_t)c.maxCap);
    Rng dr(c.drain);
    SBuf inBuf;
    size_t fed = 0;
    bool finished = false;
    auto drain = [&](const bool all, const bool atLeastOne) {
        mb_size_t have = out.contentSize();
        if (!have) return;
        mb_size_t k = have;
        if (!all && c.drain) {
            k = (mb_size_t)dr.below((uint64_t)have + 1);
            if (atLeastOne && k == 0) k = 1;
        }
        g.out.append(out.content(), (size_t)k);
        out.consume(k);
    };
    try {
        for (size_t si = 0; si <= cuts.size() && !finished; ++si) {
            const size_t upto = si < cuts.size() ? cuts[si] : c.payload.size();
            inBuf.append(c.payload.data() + fed, upto - fed);
            fed = upto;
            for (;;) {
                parser.setPayloadBuffer(&out);
                const bool done = parser.parse(inBuf);
                inBuf = parser.remaining(); // sync buffers after parse, as every real caller does
                ++g.parses;
                if (done) { g.kind = Got::Complete; finished = true; break; }
                if (!parser.needsMoreData()) { g.kind = Got::ErrorNoThrow; finished = true; break; }
                if (!inBuf.isEmpty() && parser.needsMoreSpace()) {
                    g.spaceStops = true;
                    if (!out.hasContent()) { g.kind = Got::Stalled; finished = true; break; }
                    drain(false, true);
                    continue;
                }
                drain(false, false);
                break; // needs more data
            }
        }
    } catch (const std::exception &e) {
        g.kind = Got::Rejected;
        g.what = e.what();
    } catch (...) {
        g.kind = Got::Rejected;
        g.what = "non-std exception";
    }
    drain(true, false);
    g.consumed = fed - inBuf.length(); // bytes delivered so far minus what the caller still holds
    out.clean();
    Config.onoff.relaxed_header_parser = 0;
    return g;
}

// ---------------------------------------------------------------- judge

const char *gotName(Got::Kind k) {
    switch (k) {
    case Got::Complete: return "complete";
    case Got::NeedMore: return "needmore";
    case Got::Rejected: return "rejected";
    case Got::ErrorNoThrow: return "error-nothrow";
    default: return "stalled";
    }
}

bool isPrefix(const std::string &p, const std::string &s) { return p.size() <= s.size() && s.compare(0, p.size(), p) == 0; }

int bucket(size_t n) { return n == 0 ? 0 : n < 4 ? 1 : n < 64 ? 2 : n < 2048 ? 3 : n < 65536 ? 4 : 5; }

void run(Ctx &ctx, const std::string &w) {
    Case c;
    if (!dec(w, c)) return;
    const Ref ref = refDecode(c.payload, c.relaxed != 0);
    const Got got = runSquid(c);
    ctx.ubsanGate({"TeChunkedParser.cc", "one/Tokenizer.cc", "one/Parser.cc", "parser/Tokenizer.cc", "MemBuf.cc"});
    ctx.count(std::string("squid_") + gotName(got.kind));
    ctx.count("parse_calls", got.parses);
    if (got.spaceStops) ctx.count("stopped_for_output_space");

    // generator intent vs reference: a self-check of the oracle, loud when the reference refuses
    // an encoding that the (independent) grammar-directed encoder produced as valid
    if ((c.gen == 'C' && ref.kind != Ref::Complete) || (c.gen == 'T' && ref.kind != Ref::Incomplete && ref.kind != Ref::Complete) ||
            (c.gen == 'Z' && ref.kind != Ref::Incomplete && ref.kind != Ref::Complete)) {
        ctx.violation("harness:reference-disagrees-with-encoder", std::string("generator class ") + c.gen + " but reference says kind " + std::to_string((int)ref.kind) + " " + ref.cls + " at " + std::to_string(ref.errPos));
        return;
    }
    if (ref.kind == Ref::Grey) {
        ctx.count("grey_" + ref.cls);
        ctx.grey();
        return;
    }
    if (got.kind == Got::Stalled) { // cannot happen with capacity >= 2; never judge a driver artefact
        ctx.note("stalled: needsMoreSpace with an empty output buffer, maxCap=" + std::to_string(c.maxCap));
        ctx.grey();
        return;
    }

    const size_t ncuts = cutsOf(c).size();
    std::string feat = std::string(1, c.gen) + std::to_string((int)ref.kind) + ref.cls + ">" + gotName(got.kind) + (c.relaxed ? "R" : "S") +
                       " s" + std::to_string(c.splits == "B" ? 9 : ncuts == 0 ? 0 : ncuts == 1 ? 1 : ncuts < 6 ? 2 : 3) +
                       " c" + std::to_string(bucket((size_t)c.maxCap)) + (c.drain ? "p" : "f") + (got.spaceStops ? "!" : "") +
                       " k" + std::to_string(ref.chunks == 0 ? 0 : ref.chunks == 1 ? 1 : ref.chunks < 5 ? 2 : 3) +
                       " b" + std::to_string(bucket(ref.body.size())) +
                       (ref.ext ? "e" : "") + (ref.quoted ? "q" : "") + (ref.trailers ? "t" : "") + (ref.lz ? "z" : "") + (ref.bws ? "w" : "") +
                       (ref.kind == Ref::Complete && ref.consumed < c.payload.size() ? "+" : "");
    ctx.feature(feat, !c.payload.empty());

    const std::string where = " [ref " + ref.cls + " at " + std::to_string(ref.errPos) + "; squid " + gotName(got.kind) + (got.what.empty() ? "" : ": " + got.what) +
                              "; out " + std::to_string(got.out.size()) + " B, consumed " + std::to_string(got.consumed) + "/" + std::to_string(c.payload.size()) + "]";

    // whatever happens, decoded output may only ever be (a prefix of) the body that the input carries
    if (!isPrefix(got.out, ref.body)) {
        ctx.violation("output-not-prefix-of-body", "decoded output (" + vh::show(got.out, 60) + ") is not a prefix of the body carried by the input (" + vh::show(ref.body, 60) + ")" + where);
        return;
    }

    switch (ref.kind) {
    case Ref::Complete:
        if (got.kind != Got::Complete) {
            ctx.violation(std::string("valid-not-decoded:") + gotName(got.kind), "valid chunked message was not decoded to completion" + where);
        } else if (got.out != ref.body) {
            ctx.violation("wrong-body", "decoded " + std::to_string(got.out.size()) + " bytes, expected " + std::to_string(ref.body.size()) + where);
        } else if (got.consumed != ref.consumed) {
            ctx.violation("wrong-consumed", "consumed " + std::to_string(got.consumed) + " expected " + std::to_string(ref.consumed) + where);
        }
        break;
    case Ref::Incomplete:
        if (got.kind != Got::NeedMore) {
            ctx.violation(std::string("truncated-not-needmore:") + gotName(got.kind), "a proper prefix of a valid chunked message must only ask for more data" + where);
        } else {
            if (got.out.size() < ref.body.size()) ctx.count("truncated_output_shorter_than_available");
            if (got.consumed > c.payload.size()) ctx.violation("wrong-consumed", "consumed more than was delivered" + where);
        }
        break;
    case Ref::Malformed:
        if (got.kind == Got::Complete)
            ctx.violation("accepted-malformed:" + ref.cls, "malformed framing decoded as a complete message" + where);
        else if (got.kind == Got::NeedMore) {
            // a parser may need bounded look-ahead (the 2-byte CRLF) before it can tell
            if (ref.errPos + 2 >= c.payload.size()) ctx.count("malformed_near_end_needmore");
            else ctx.violation("malformed-not-rejected:" + ref.cls, "malformed framing with " + std::to_string(c.payload.size() - ref.errPos) + " bytes delivered past the error only asks for more data" + where);
        } else if (got.kind == Got::ErrorNoThrow)
            ctx.count("rejected_without_exception");
        break;
    default:
        break;
    }
}

// ---------------------------------------------------------------- generators

const std::string TcharAlphabet = "!#$%&'*+-.^_`|~0123456789abcdefghijklmnopqrstuvwxyzABCDEFGHIJKLMNOPQRSTUVWXYZ";

struct Layout {
    std::string bytes;
    struct Ck { size_t ds, de, lineCr, dataCr; bool last; };
    std::vector<Ck> cks;
    std::vector<size_t> framing; // offsets of bytes that are framing, not chunk data
    size_t end = 0;              // length of the chunked message (without pipelined tail)
};

std::string genBws(Rng &r) { return r.chance(7, 10) ? "" : r.pick({" ", "\t", "  ", " \t", "\t "}); }

std::string genQuoted(Rng &r) {
    std::string s = "\"";
    const size_t n = r.below(10);
    for (size_t i = 0; i < n; ++i) {
        switch (r.below(8)) {
        case 0: s += '\\'; s += r.pick({"\"", "\\", "a", " ", "\t", "~", "!", "\x80", "\xff"}); break;
        case 1: s += (char)r.range(0x80, 0xff); break;
        case 2: s += r.pick({";", "=", ",", " ", "\t", "!", "#", "[", "]", "~", "'"}); break;
        default: s += (char)r.range(0x23, 0x5b); break;
        }
    }
    return s + "\"";
}

std::string genExts(Rng &r) {
    std::string s;
    if (r.chance(6, 10)) return s;
    const int k = 1 + (int)r.below(3);
    for (int i = 0; i < k; ++i) {
        s += genBws(r) + ";" + genBws(r) + r.from(TcharAlphabet, 1 + r.below(8));
        switch (r.below(3)) {
        case 0: break;
        case 1: s += genBws(r) + "=" + genBws(r) + r.from(TcharAlphabet, 1 + r.below(8)); break;
        default: s += genBws(r) + "=" + genBws(r) + genQuoted(r); break;
        }
    }
    return s;
}

std::string hexOf(uint64_t v, Rng &r) {
    char b[32];
    const int style = (int)r.below(3);
    snprintf(b, sizeof b, style == 0 ? "%llx" : "%llX", (unsigned long long)v);
    std::string s = b;
    if (style == 2) for (auto &ch : s) if (r.coin()) ch = (char)tolower(ch);
    if (r.chance(3, 10)) s.insert(0, r.chance(1, 3) ? r.below(31) : 1 + r.below(3), '0');
    return s;
}

std::string genBody(Rng &r, size_t maxLen) {
    size_t len;
    switch (r.below(20)) {
    case 0: case 1: len = 0; break;
    case 2: len = 1; break;
    case 3: case 4: len = r.below(700); break;
    case 5: len = r.chance(1, 4) ? r.below(65537) : r.below(5000); break;
    default: len = r.below(48); break;
    }
    if (len > maxLen) len = maxLen;
    std::string b;
    while (b.size() < len) {
        switch (r.below(6)) { // bodies that look like framing
        case 0: b += r.pick({"\r\n", "0\r\n\r\n", "\r", "\n", "5\r\n", ";", "0", "a\r\nbc", "\r\n\r\n", "0x"}); break;
        case 1: b += r.bytes(1 + r.below(len > 1000 ? 2000 : 8)); break;
        default: b += r.from("abcdef0123456789 \r\n", 1 + r.below(6)); break;
        }
    }
    b.resize(len);
    return b;
}

Layout encode(Rng &r, const std::string &body) {
    Layout L;
    std::string &o = L.bytes;
    auto frame = [&](const std::string &s) { for (size_t i = 0; i < s.size(); ++i) L.framing.push_back(o.size() + i); o += s; };
    size_t off = 0;
    const int style = (int)r.below(4); // 0: one chunk, 1: tiny chunks, 2: random, 3: power-of-two-ish
    while (off < body.size()) {
        const size_t left = body.size() - off;
        size_t k;
        switch (style) {
        case 0: k = left; break;
        case 1: k = 1 + r.below(3); break;
        case 2: k = 1 + r.below(left); break;
        default: k = (size_t)1 << r.below(13); if (r.coin()) k += r.range(-1, 1); if (!k) k = 1; break;
        }
        if (k > left) k = left;
        if (body.size() > 4096 && k < 16 && left > 64) k = 16 + r.below(4096); // keep huge bodies affordable
        if (k > left) k = left;
        Layout::Ck ck{};
        ck.ds = o.size();
        frame(hexOf(k, r));
        ck.de = o.size();
        frame(genExts(r));
        ck.lineCr = o.size();
        frame("\r\n");
        o.append(body, off, k);
        off += k;
        ck.dataCr = o.size();
        frame("\r\n");
        ck.last = false;
        L.cks.push_back(ck);
    }
    Layout::Ck ck{};
    ck.ds = o.size();
    frame(std::string(r.chance(8, 10) ? 1 : 1 + r.below(20), '0'));
    ck.de = o.size();
    frame(genExts(r));
    ck.lineCr = o.size();
    frame("\r\n");
    ck.dataCr = 0;
    ck.last = true;
    L.cks.push_back(ck);
    if (r.chance(3, 10)) {
        const int k = 1 + (int)r.below(3);
        for (int i = 0; i < k; ++i) {
            std::string v;
            const size_t vl = r.below(12);
            for (size_t j = 0; j < vl; ++j) v += r.chance(1, 10) ? (char)r.range(0x80, 0xff) : (char)r.range(0x20, 0x7e);
            frame(r.from(TcharAlphabet, 1 + r.below(10)) + ":" + (r.coin() ? " " : "") + v + "\r\n");
        }
    }
    frame("\r\n");
    L.end = o.size();
    return L;
}

// deliberately malformed framing, by class named in the statement
void makeMalformed(Rng &r, Layout &L) {
    std::string &o = L.bytes;
    const Layout::Ck ck = L.cks[r.below(L.cks.size())];
    const size_t nd = ck.de - ck.ds;
    switch (r.below(6)) {
    case 0: // 0x prefix
        if (r.coin()) o.insert(ck.ds, r.coin() ? "0x" : "0X");
        else o.replace(ck.ds, nd, std::string(r.coin() ? "0x" : "0X") + (r.coin() ? o.substr(ck.ds, nd) : std::string("")));
        break;
    case 1: { // non-hex character in the size
        const std::string bad = r.pick({"g", "G", "x", "X", "-", "+", ".", ",", "h", "/", ":", "@", "`", "_", "\x80", "\xff", "\x01", "\x7f", "o", "l"});
        const size_t at = r.below(nd + 1);
        if (r.coin() || nd == 1) o.insert(ck.ds + at, bad); else o.replace(ck.ds + (at < nd ? at : nd - 1), 1, bad);
        if (r.chance(1, 6)) o.insert(ck.ds, r.pick({" ", "\t", "-", "+"}));
        break; }
    case 2: { // does not fit in 63 bits
        std::string big;
        switch (r.below(7)) {
        case 0: big = "8000000000000000"; break;
        case 1: big = r.coin() ? "FFFFFFFFFFFFFFFF" : "ffffffffffffffff"; break;
        case 2: big = "10000000000000000"; break;
        case 3: big = "7FFFFFFFFFFFFFFF" + std::string(1, "0123456789abcdefABCDEF"[r.below(22)]); break;
        case 4: big = std::string(17 + r.below(30), 'F'); break;
        case 5: big = std::string(r.below(20), '0') + "8000000000000000"; break;
        default: big = std::string(1, "123456789abcdef"[r.below(15)]) + r.from("0123456789abcdefABCDEF", 16 + r.below(20)); break;
        }
        o.replace(ck.ds, nd, big);
        break; }
    case 3: // missing CRLF after the size line
        o.replace(ck.lineCr, 2, r.pick({"\n", "\r", "", "\r\r\n", "\n\r", "\r \n", " ", "\n\n"}));
        break;
    case 4: // missing CRLF after chunk data
        if (ck.last) o.replace(ck.lineCr, 2, r.pick({"\n", "\r", "\n\r"}));
        else o.replace(ck.dataCr, 2, r.pick({"\n", "\r", "", "\r\r\n", "\n\r", " \r\n", "\r\r", "X\r\n", "\n\n"}));
        break;
    default: { // malformed extension
        const std::string bad = r.pick({";", ";=v", ";a=", ";a=\"unterminated", ";a=\"bad\x01" "ctl\"", ";a=\"x\\\x01\"", ";a b", ";a=b c", ";@", ";a=@",
                                        ";a=\"x\"y", ";a==b", ";;a", ";a=\"x\\", "; =b", ";a=\x7f", ";a=\"\x7f\"", ";a=\"x\r\n\"", ";a;", ";a=b;", ";a=\"\\\r\"",
                                        ";a=\"x\" y", ";\x80", ";a=b\x80", ";(", ";a=(b)", ";a=\"\n\"", ";a=b,c", ";a/b"});
        o.insert(r.coin() ? ck.de : ck.lineCr, bad);
        break; }
    }
}

void mutateRandom(Rng &r, Layout &L) {
    std::string &o = L.bytes;
    const int edits = 1 + (int)r.below(3);
    for (int i = 0; i < edits && !o.empty(); ++i) {
        size_t at = r.below(o.size());
        if (!L.framing.empty() && r.chance(4, 5)) { at = L.framing[r.below(L.framing.size())]; if (at >= o.size()) at = o.size() - 1; }
        static const std::vector<std::string> dict = {"\r", "\n", "\r\n", ";", "=", "\"", "\\", " ", "\t", "0", "x", "0x", "f", "F", "g", "\v", "\f", "\x01", ":", "8", "7", "-", "+", "1"};
        switch (r.below(4)) {
        case 0: o[at] = r.coin() ? (char)r.next() : r.pick(dict)[0]; break;
        case 1: o.insert(at, r.coin() ? std::string(1, (char)r.next()) : r.pick(dict)); break;
        case 2: o.erase(at, 1 + r.below(2)); break;
        default: { const size_t l = 1 + r.below(4); o.insert(at, o.substr(at, l)); break; }
        }
    }
}

void pickDelivery(Rng &r, Case &c, const Layout *L) {
    const size_t n = c.payload.size();
    c.relaxed = r.chance(1, 2) ? 1 : 0;
    if (r.chance(1, 40)) c.relaxed = -1; // "warn" setting, behaves as relaxed
    // output space
    switch (r.below(8)) {
    case 0: case 1: case 2: c.maxCap = 2000000000L; c.initCap = 2048; break; // HttpStateData: default MemBuf
    case 3: c.maxCap = 65536; c.initCap = 2048; break;                           // BodyPipe::MaxCapacity
    case 4: c.maxCap = n > 3000 ? 64 + r.below(300) : 2 + r.below(6); c.initCap = 1 + r.below(c.maxCap); break;
    case 5: c.maxCap = n > 3000 ? 100 + r.below(5000) : 2 + r.below(64); c.initCap = 1 + r.below(c.maxCap); break;
    case 6: c.maxCap = 2049 + r.below(8000); c.initCap = 1 + r.below(4096); break; // growth steps
    default: c.maxCap = 60000 + r.below(150000); c.initCap = 1 + r.below(70000); break;
    }
    if (c.initCap > c.maxCap) c.initCap = c.maxCap;
    c.drain = r.coin() ? 0 : 1 + r.below(1000000);
    // input segmentation
    std::vector<size_t> cuts;
    switch (r.below(10)) {
    case 0: case 1: case 2: c.splits = "-"; return;
    case 3: if (n <= 700) { c.splits = "B"; return; } if (n) cuts.push_back(r.below(n + 1)); break;
    case 4: case 5: if (n) cuts.push_back(r.below(n + 1)); break;
    case 6: case 7: { const int k = 2 + (int)r.below(7); for (int i = 0; i < k && n; ++i) cuts.push_back(r.below(n + 1)); break; }
    default: // cuts next to framing bytes
        if (L && !L->framing.empty()) { const int k = 1 + (int)r.below(5); for (int i = 0; i < k; ++i) { size_t p = L->framing[r.below(L->framing.size())] + r.below(2); if (p <= n) cuts.push_back(p); } }
        else if (n) cuts.push_back(r.below(n + 1));
        break;
    }
    std::sort(cuts.begin(), cuts.end());
    c.splits.clear();
    for (size_t i = 0; i < cuts.size(); ++i) c.splits += (i ? "," : "") + std::to_string(cuts[i]);
    if (c.splits.empty()) c.splits = "-";
}

std::string genTail(Rng &r) {
    if (r.chance(6, 10)) return "";
    switch (r.below(5)) {
    case 0: return "GET / HTTP/1.1\r\n";
    case 1: return r.pick({"\r\n", "\n", "\r", "0\r\n\r\n", "5\r\nhello\r\n", " ", "X"});
    default: return r.bytes(1 + r.below(6));
    }
}

std::string gen(Rng &r) {
    Case c;
    const unsigned sel = (unsigned)r.below(100);
    const std::string body = genBody(r, 65536);
    Layout L = encode(r, body);
    if (sel < 40) { // valid, complete, possibly followed by pipelined bytes
        c.gen = 'C';
        L.bytes += genTail(r);
    } else if (sel < 55) { // truncated valid message
        c.gen = 'T';
        size_t cut = r.below(L.end);
        if (r.coin() && !L.framing.empty()) { cut = L.framing[r.below(L.framing.size())] + r.below(2); if (cut >= L.end) cut = L.end - 1; }
        L.bytes.resize(cut);
    } else if (sel < 80) { // malformed by construction
        c.gen = 'M';
        makeMalformed(r, L);
    } else if (sel < 86) { // boundary chunk sizes with only part of the data present
        c.gen = 'Z';
        L.bytes.resize(L.cks.back().ds); // drop last-chunk and trailer
        L.bytes += r.pick({"7FFFFFFFFFFFFFFF", "7fffffffffffffff", "00007FFFFFFFFFFFFFFF", "100000000", "FFFFFFFF", "ffffffff", "80000000", "7FFFFFFF", "FFFFFFFFFFFF",
                           "7FFFFFFFFFFFFFFE", "1000000000000000", "0000000000000000000000000000007FFFFFFF"});
        L.bytes += genExts(r) + "\r\n";
        if (r.chance(4, 5)) L.bytes += genBody(r, 300);
    } else if (sel < 97) { // random byte edits, biased to framing bytes
        c.gen = 'R';
        mutateRandom(r, L);
        if (r.chance(1, 4)) L.bytes.resize(r.below(L.bytes.size() + 1));
    } else { // documented tolerances: exercised, not judged
        c.gen = 'G';
        const Layout::Ck ck = L.cks[r.below(L.cks.size())];
        if (r.coin()) L.bytes.insert(ck.lineCr, r.pick({" ", "\t", "  "}));
        else L.bytes.replace(L.end - 2, 2, r.pick({"\n", "x\r\n\r\n", "\r\r\n"}));
    }
    c.payload = L.bytes;
    pickDelivery(r, c, &L);
    return enc(c);
}

int drive(Ctx &ctx) {
    if (!ctx.replaying) {
        // small scope: every prefix of short valid encodings, one shot and cut once at every... (random) point
        const int encodings = (ctx.thorough ? 1008 : 64) / ctx.nshards + 1;
        Rng r(Ctx::mix(ctx.seed ^ 0xC24, (uint64_t)ctx.shard));
        long n = 0;
        for (int e = 0; e < encodings; ++e) {
            Layout L = encode(r, genBody(r, 24));
            if (L.end > 160) continue;
            for (size_t len = 0; len <= L.end; ++len) {
                for (int mode = 0; mode < 3; ++mode) {
                    Case c;
                    c.gen = len == L.end ? 'C' : 'T';
                    c.payload = L.bytes.substr(0, len);
                    c.relaxed = (int)r.below(2);
                    if (mode == 1) { c.splits = len ? std::to_string(r.below(len + 1)) : "-"; c.maxCap = 2 + r.below(8); c.initCap = 1; c.drain = r.below(3); }
                    if (mode == 2) { c.splits = "B"; }
                    const std::string w = enc(c);
                    ctx.begin(w);
                    run(ctx, w);
                    ++n;
                }
            }
        }
        ctx.count("prefix_cases_enumerated", n);
    }
    return vh::Loop(ctx, gen, run);
}

} // namespace

VH_REGISTER(C24, drive, "TeChunkedParser vs RFC 9112 reference decoder over chunkings, splits, output limits, malformed classes");
