// C37 DNS message decoding is memory-safe and faithful.
// Oracle: an independent strict RFC 1035 decoder (names with backward-only compression pointers,
// header, question, resource records) executed next to rfc1035MessageUnpack() on messages produced by
// a reference encoder (random names/records/compression) and on their mutations, truncations and
// pointer-loop constructions; every input lives in an exact-size heap buffer (ASan sees any overread).
// Query builders (rfc1035BuildAQuery/PTRQuery, rfc3596Build*Query, EDNS OPT) are decoded back by both
// Squid's unpacker and the reference decoder.
#include "squid.h"
#include "vh.h"
#include "dns/rfc1035.h"
#include "dns/rfc2671.h"
#include "dns/rfc3596.h"
#include "SquidConfig.h"

#include <arpa/inet.h>
#include <memory>

using vh::Ctx;
using vh::Rng;

namespace {

typedef std::string S;

unsigned u8(const S &m, size_t i) { return (unsigned char)m[i]; }
unsigned u16(const S &m, size_t i) { return (u8(m, i) << 8) | u8(m, i + 1); }
S be16(unsigned v) { S s; s += (char)(v >> 8); s += (char)(v & 255); return s; }
S be32(uint32_t v) { return be16(v >> 16) + be16(v & 0xffff); }

// ---------------------------------------------------------------- reference decoder (strict)
struct RName {
    bool ok = false;
    bool odd = false;   // decodable, but the textual form is not settled (NUL in a label, pointer straight to the root, very long pointer chain)
    S text;             // labels joined by '.'
    size_t end = 0;     // offset after the name in the enclosing record
    int hops = 0;
    int labels = 0;
};

RName decName(const S &m, size_t off) {
    RName r;
    size_t p = off, segStart = off, wire = 1;
    bool jumped = false, segEmpty = true;
    for (;;) {
        if (p >= m.size()) return r;
        const unsigned c = u8(m, p);
        if ((c & 0xC0) == 0xC0) {
            if (p + 1 >= m.size()) return r;
            const size_t ptr = ((c & 0x3F) << 8) | u8(m, p + 1);
            if (!jumped) r.end = p + 2;
            jumped = true;
            if (ptr >= segStart) return r; // RFC 1035 4.1.4: a pointer refers to a PRIOR occurrence; also guarantees termination
            segStart = ptr; p = ptr; segEmpty = true;
            if (++r.hops > 32) r.odd = true;
            continue;
        }
        if (c & 0xC0) return r; // 01 and 10 are reserved
        if (c == 0) {
            if (!jumped) r.end = p + 1;
            if (jumped && segEmpty) r.odd = true; // pointer to a root label
            break;
        }
        if (p + 1 + c >= m.size()) return r; // the label and at least the byte after it must be inside the message
        wire += c + 1;
        if (wire > 255) return r;
        const S label = m.substr(p + 1, c);
        if (label.find('\0') != S::npos) r.odd = true;
        if (r.labels++) r.text += '.';
        r.text += label;
        p += 1 + c; segEmpty = false;
    }
    r.ok = true;
    return r;
}

struct RRec { S name; unsigned type = 0, cls = 0; uint32_t ttl = 0; unsigned rdlength = 0; S rdata; bool odd = false; bool isName = false; };
struct RMsg {
    bool hdr = false;
    unsigned id = 0, qr = 0, opcode = 0, aa = 0, tc = 0, rd = 0, ra = 0, rcode = 0, qd = 0, an = 0, ns = 0, ar = 0;
    bool qOk = false, qOdd = false; S qname; unsigned qtype = 0, qclass = 0; size_t qEnd = 0; int qHops = 0;
    std::vector<RRec> recs; // leading answer records that decode strictly
    bool allRecs = false;   // recs.size() == an
    size_t end = 0;         // offset after the last decoded answer record
};

bool decRR(const S &m, size_t off, RRec &rr, size_t &end) {
    const RName n = decName(m, off);
    if (!n.ok) return false;
    const size_t p = n.end;
    if (p + 10 > m.size()) return false;
    rr.name = n.text; rr.odd = n.odd;
    rr.type = u16(m, p); rr.cls = u16(m, p + 2); rr.ttl = ((uint32_t)u16(m, p + 4) << 16) | u16(m, p + 6); rr.rdlength = u16(m, p + 8);
    if (p + 10 + rr.rdlength > m.size()) return false;
    if (rr.type == RFC1035_TYPE_PTR) {
        const RName t = decName(m, p + 10);
        if (!t.ok || t.end != p + 10 + rr.rdlength) return false; // RDATA must be exactly one domain name
        rr.rdata = t.text; rr.isName = true; rr.odd = rr.odd || t.odd;
    } else rr.rdata = m.substr(p + 10, rr.rdlength);
    end = p + 10 + rr.rdlength;
    return true;
}

RMsg refDecode(const S &m) {
    RMsg r;
    if (m.size() < 12) return r;
    r.hdr = true;
    r.id = u16(m, 0);
    const unsigned t = u16(m, 2);
    r.qr = t >> 15; r.opcode = (t >> 11) & 15; r.aa = (t >> 10) & 1; r.tc = (t >> 9) & 1; r.rd = (t >> 8) & 1; r.ra = (t >> 7) & 1; r.rcode = t & 15;
    r.qd = u16(m, 4); r.an = u16(m, 6); r.ns = u16(m, 8); r.ar = u16(m, 10);
    if (r.qd != 1) return r;
    const RName q = decName(m, 12);
    if (!q.ok || q.end + 4 > m.size()) return r;
    r.qOk = true; r.qOdd = q.odd; r.qname = q.text; r.qHops = q.hops; r.qtype = u16(m, q.end); r.qclass = u16(m, q.end + 2); r.qEnd = q.end + 4;
    size_t off = r.qEnd;
    for (unsigned j = 0; j < r.an; ++j) {
        RRec rr; size_t e = 0;
        if (!decRR(m, off, rr, e)) break;
        r.recs.push_back(rr); off = e;
    }
    r.allRecs = r.recs.size() == r.an;
    r.end = off;
    return r;
}

// ---------------------------------------------------------------- Squid side, copied out
struct SMsg { int ret = 0; bool have = false; RMsg h; std::vector<RRec> recs; };

SMsg squidDecode(const S &m) {
    SMsg s;
    std::unique_ptr<char[]> buf(new char[m.size()]); // exact size: any overread is an ASan report
    memcpy(buf.get(), m.data(), m.size());
    rfc1035_message *msg = nullptr;
    s.ret = rfc1035MessageUnpack(buf.get(), m.size(), &msg);
    if (msg) {
        s.have = true;
        s.h.id = msg->id; s.h.qr = msg->qr; s.h.opcode = msg->opcode; s.h.aa = msg->aa; s.h.tc = msg->tc; s.h.rd = msg->rd; s.h.ra = msg->ra; s.h.rcode = msg->rcode;
        s.h.qd = msg->qdcount; s.h.an = msg->ancount; s.h.ns = msg->nscount; s.h.ar = msg->arcount;
        if (msg->query) { s.h.qOk = true; s.h.qname = S(msg->query->name, strnlen(msg->query->name, sizeof(msg->query->name))); s.h.qtype = msg->query->qtype; s.h.qclass = msg->query->qclass; }
        if (msg->answer && s.ret > 0) {
            for (int j = 0; j < s.ret && j < (int)msg->ancount; ++j) {
                const rfc1035_rr &a = msg->answer[j];
                RRec rr; rr.name = S(a.name, strnlen(a.name, sizeof(a.name))); rr.type = a.type; rr.cls = a._class; rr.ttl = a.ttl; rr.rdlength = a.rdlength;
                if (a.type == RFC1035_TYPE_PTR) { rr.isName = true; rr.rdata = a.rdata ? S(a.rdata, strnlen(a.rdata, RFC1035_MAXHOSTNAMESZ)) : S(); }
                else rr.rdata = a.rdata ? S(a.rdata, a.rdlength) : S();
                s.recs.push_back(rr);
            }
        }
        rfc1035MessageDestroy(&msg);
    }
    return s;
}

S hdrStr(const RMsg &h) {
    char b[160];
    snprintf(b, sizeof b, "id=%u qr=%u op=%u aa=%u tc=%u rd=%u ra=%u rcode=%u qd=%u an=%u ns=%u ar=%u", h.id, h.qr, h.opcode, h.aa, h.tc, h.rd, h.ra, h.rcode, h.qd, h.an, h.ns, h.ar);
    return b;
}

S typeName(unsigned t) { return t == 1 ? "A" : t == 28 ? "AAAA" : t == 12 ? "PTR" : t == 5 ? "CNAME" : t == 41 ? "OPT" : "x"; }

// judges one datagram; returns the feature string ("" when the case is not judged)
S judge(Ctx &ctx, const S &m, const char *scope) {
    const RMsg ref = refDecode(m);
    const SMsg got = squidDecode(m);
    const S where = S(scope) + " of " + std::to_string(m.size()) + " bytes " + vh::show(m, 120) + ": ";
    const S retc = got.ret > 0 ? "n" : got.ret == 0 ? "0" : got.ret == -15 ? "E" : "rc";
    if (!ref.hdr) {
        if (got.ret >= 0 || got.have) ctx.violation("unpack:accepted-short-datagram", where + "datagram shorter than a DNS header decoded with result " + std::to_string(got.ret));
        return "short|" + retc;
    }
    if (got.have && hdrStr(got.h) != hdrStr(ref)) { ctx.violation("unpack:wrong-header", where + "header decoded as " + hdrStr(got.h) + " expected " + hdrStr(ref)); return "hdrdiff"; }
    if (got.ret > (int)ref.an) { ctx.violation("unpack:more-records-than-ancount", where + "returned " + std::to_string(got.ret) + " records, ancount " + std::to_string(ref.an)); return "count"; }
    if (ref.qd != 1) ctx.count("class:qdcount-not-1");
    else if (!ref.qOk) ctx.count("class:malformed-question");
    else if (!ref.qOdd) ctx.count(ref.rcode ? "class:wellformed-rcode" : ref.an == 0 ? "class:wellformed-no-answers" : ref.allRecs ? "class:wellformed-all-records" : "class:question-ok-records-broken");
    if (ref.qd != 1) return "qd" + std::to_string(ref.qd > 2 ? 2 : ref.qd) + "|" + retc; // Squid refuses by design: safety only
    if (!ref.qOk) return "badq|" + retc;                                                  // malformed question: safety only
    if (ref.qOdd) return "";                                                              // textual form not settled
    // a message whose header and question are well-formed
    S shape = S("q") + typeName(ref.qtype) + "h" + std::to_string(std::min(ref.qHops, 3)) + "l" + std::to_string(ref.qname.size() / 32);
    const bool expectMsg = ref.rcode != 0 || ref.an == 0 || ref.allRecs;
    if (!got.have) {
        if (expectMsg) { ctx.violation("unpack:rejected-wellformed", where + "well-formed message (" + hdrStr(ref) + ", question " + vh::show(ref.qname, 80) + ") rejected with " + std::to_string(got.ret)); return "rejected"; }
        return shape + "|partial" + std::to_string(ref.recs.size() > 3 ? 3 : ref.recs.size()) + "|" + retc;
    }
    if (!got.h.qOk || got.h.qname != ref.qname || got.h.qtype != ref.qtype || got.h.qclass != ref.qclass) {
        ctx.violation("unpack:wrong-question", where + "question decoded as " + vh::show(got.h.qname, 80) + "/" + std::to_string(got.h.qtype) + "/" + std::to_string(got.h.qclass) + " expected " + vh::show(ref.qname, 80) + "/" + std::to_string(ref.qtype) + "/" + std::to_string(ref.qclass));
        return "qdiff";
    }
    if (ref.rcode) {
        if (got.ret != -(int)ref.rcode) ctx.violation("unpack:wrong-result:rcode", where + "rcode " + std::to_string(ref.rcode) + " but result " + std::to_string(got.ret));
        return shape + "|rcode" + std::to_string(ref.rcode);
    }
    if (ref.an == 0) {
        if (got.ret != 0) ctx.violation("unpack:wrong-result:no-answers", where + "ancount 0 but result " + std::to_string(got.ret));
        return shape + "|an0|ns" + std::to_string(ref.ns > 0) + "ar" + std::to_string(ref.ar > 0);
    }
    bool anyOdd = false;
    for (auto &r : ref.recs) anyOdd = anyOdd || r.odd;
    if (ref.allRecs && !anyOdd && got.ret != (int)ref.an) {
        ctx.violation("unpack:wrong-record-count", where + "all " + std::to_string(ref.an) + " answer records are well-formed but result is " + std::to_string(got.ret));
        return "rrcount";
    }
    S types;
    for (size_t j = 0; j < ref.recs.size(); ++j) {
        const RRec &e = ref.recs[j];
        if (j < 4) types += typeName(e.type) + (e.isName ? "" : std::to_string(e.rdlength > 16 ? 17 : e.rdlength)) + ",";
        if (j >= got.recs.size() || e.odd) continue;
        const RRec &g = got.recs[j];
        S d;
        if (g.name != e.name) d = "owner " + vh::show(g.name, 80) + " expected " + vh::show(e.name, 80);
        else if (g.type != e.type || g.cls != e.cls || g.ttl != e.ttl) d = "type/class/ttl " + std::to_string(g.type) + "/" + std::to_string(g.cls) + "/" + std::to_string(g.ttl) + " expected " + std::to_string(e.type) + "/" + std::to_string(e.cls) + "/" + std::to_string(e.ttl);
        else if (!e.isName && g.rdlength != e.rdlength) d = "rdlength " + std::to_string(g.rdlength) + " expected " + std::to_string(e.rdlength);
        else if (g.rdata != e.rdata) d = "rdata " + vh::show(g.rdata, 80) + " expected " + vh::show(e.rdata, 80);
        if (!d.empty()) { ctx.violation("unpack:wrong-record:" + typeName(e.type), where + "answer " + std::to_string(j) + ": " + d); return "rrdiff"; }
    }
    return shape + "|" + (ref.allRecs ? "all" : "part") + std::to_string(std::min<size_t>(ref.an, 8)) + "|" + types + "|" + retc + (m.size() > ref.end && ref.allRecs ? "|more" : "");
}

// ---------------------------------------------------------------- query builders
bool validHostname(const S &h, S &canon) {
    S t = h;
    if (!t.empty() && t.back() == '.') t.pop_back();
    if (t.empty() || t.size() > 253) return false;
    size_t run = 0;
    for (unsigned char c : t) {
        if (c == '.') { if (!run) return false; run = 0; continue; }
        if (!(isalnum(c) || c == '-' || c == '_')) return false;
        if (++run > 63) return false;
    }
    if (!run) return false;
    canon = t;
    return true;
}

void runQuery(Ctx &ctx, const S &w, size_t nl) {
    char fn; unsigned qid; long edns; unsigned extra;
    if (sscanf(w.substr(0, nl).c_str(), "Q %c %u %ld %u", &fn, &qid, &edns, &extra) != 4 || qid > 65535 || extra > 4096) { ctx.grey(); return; }
    const S arg = w.substr(nl + 1);
    S host, canon; bool judged = true; unsigned qtype = RFC1035_TYPE_A;
    struct in_addr a4; struct in6_addr a6; char txt[128];
    memset(&a4, 0, sizeof a4); memset(&a6, 0, sizeof a6);
    if (fn == 'a' || fn == 'A' || fn == '6') {
        host = arg;
        if (host.find('\0') != S::npos || host.size() > 1000) { ctx.grey(); return; }
        judged = validHostname(host, canon);
        qtype = fn == '6' ? RFC1035_TYPE_AAAA : RFC1035_TYPE_A;
    } else if (fn == 'p' || fn == '4') {
        if (arg.size() != 4) { ctx.grey(); return; }
        memcpy(&a4, arg.data(), 4);
        snprintf(txt, sizeof txt, "%u.%u.%u.%u.in-addr.arpa", u8(arg, 3), u8(arg, 2), u8(arg, 1), u8(arg, 0));
        canon = txt; qtype = RFC1035_TYPE_PTR;
    } else if (fn == 'P') {
        if (arg.size() != 16) { ctx.grey(); return; }
        memcpy(&a6, arg.data(), 16);
        for (int i = 15; i >= 0; --i) { snprintf(txt, sizeof txt, "%x.%x.", u8(arg, i) & 15, u8(arg, i) >> 4); canon += txt; }
        canon += "ip6.arpa"; qtype = RFC1035_TYPE_PTR;
    } else { ctx.grey(); return; }
    const size_t nameUpper = (host.empty() ? canon.size() : host.size()) + 2;
    const size_t sz = 12 + nameUpper + 4 + 11 + extra; // the builders assert() on a short buffer (caller contract): always give enough
    std::unique_ptr<char[]> buf(new char[sz]);
    memset(buf.get(), 0x5a, sz);
    rfc1035_query q; memset(&q, 0x5a, sizeof q);
    const auto savedMax = Config.dns.packet_max;
    Config.dns.packet_max = edns;
    ssize_t n = -1;
    switch (fn) {
    case 'a': n = rfc1035BuildAQuery(host.c_str(), buf.get(), sz, (unsigned short)qid, &q, edns); break;
    case 'p': n = rfc1035BuildPTRQuery(a4, buf.get(), sz, (unsigned short)qid, &q, edns); break;
    case 'A': n = rfc3596BuildAQuery(host.c_str(), buf.get(), sz, (unsigned short)qid, &q); break;
    case '6': n = rfc3596BuildAAAAQuery(host.c_str(), buf.get(), sz, (unsigned short)qid, &q); break;
    case '4': n = rfc3596BuildPTRQuery4(a4, buf.get(), sz, (unsigned short)qid, &q); break;
    default: n = rfc3596BuildPTRQuery6(a6, buf.get(), sz, (unsigned short)qid, &q); break;
    }
    Config.dns.packet_max = savedMax;
    ctx.ubsanGate({"dns/rfc"});
    if (n < 12 || (size_t)n > sz) { ctx.violation("build:bad-length", "builder returned " + std::to_string((long)n) + " for a buffer of " + std::to_string(sz)); return; }
    const S m(buf.get(), (size_t)n);
    if (!judged) { // invalid host names (empty or oversized labels, odd characters): whatever was packed must still decode safely
        squidDecode(m);
        ctx.feature(S("Q") + fn + "|invalid-host|" + (edns > 0 ? "e" : "-"), true);
        return;
    }
    const size_t expectLen = 12 + canon.size() + 2 + 4 + (edns > 0 ? 11 : 0);
    const S id = S("build:") + fn + ":";
    if ((size_t)n != expectLen) { ctx.violation(id + "length", "query for " + vh::show(canon, 80) + " is " + std::to_string((long)n) + " bytes, expected " + std::to_string(expectLen)); return; }
    // decodes back to itself: by Squid's unpacker and by the reference decoder
    const RMsg ref = refDecode(m);
    const SMsg got = squidDecode(m);
    RMsg want; want.id = qid; want.rd = 1; want.qd = 1; want.ar = edns > 0 ? 1 : 0;
    if (!ref.hdr || hdrStr(ref) != hdrStr(want)) { ctx.violation(id + "header", "packed header reads " + hdrStr(ref) + " expected " + hdrStr(want)); return; }
    if (!ref.qOk || ref.qname != canon || ref.qtype != qtype || ref.qclass != RFC1035_CLASS_IN || ref.qHops) { ctx.violation(id + "question", "packed question reads " + vh::show(ref.qname, 80) + "/" + std::to_string(ref.qtype) + "/" + std::to_string(ref.qclass) + " expected " + vh::show(canon, 80) + "/" + std::to_string(qtype) + "/1"); return; }
    if (edns > 0) {
        // one OPT pseudo-RR: root owner, type 41, class = advertised size, no data; and nothing after it
        const size_t o = ref.qEnd;
        const unsigned adv = (unsigned)std::min<long>(edns, SQUID_UDP_SO_RCVBUF - 1);
        if (m.size() != o + 11 || u8(m, o) != 0 || u16(m, o + 1) != RFC1035_TYPE_OPT || u16(m, o + 3) != adv || u16(m, o + 9) != 0) { ctx.violation(id + "opt", "EDNS OPT record malformed: " + vh::show(m.substr(o), 40)); return; }
    } else if (m.size() != ref.qEnd) { ctx.violation(id + "trailing", "bytes after the question"); return; }
    if (!got.have || got.ret != 0 || hdrStr(got.h) != hdrStr(want) || got.h.qname != canon || got.h.qtype != qtype || got.h.qclass != RFC1035_CLASS_IN) {
        ctx.violation(id + "unpack-fixpoint", "unpacking the packed query gives result " + std::to_string(got.ret) + " " + hdrStr(got.h) + " " + vh::show(got.h.qname, 80) + " expected " + hdrStr(want) + " " + vh::show(canon, 80));
        return;
    }
    // the caller's copy of the question must match the packed one (that is how replies are paired)
    rfc1035_query dq; memset(&dq, 0, sizeof dq);
    snprintf(dq.name, sizeof dq.name, "%s", got.h.qname.c_str()); dq.qtype = got.h.qtype; dq.qclass = got.h.qclass;
    if (q.qtype != qtype || q.qclass != RFC1035_CLASS_IN || rfc1035QueryCompare(&q, &dq) != 0) { ctx.violation(id + "query-struct", "returned rfc1035_query does not compare equal to the packed question"); return; }
    ctx.count("class:query-built-and-decoded");
    ctx.feature(S("Q") + fn + "|" + (edns > 0 ? "e" : "-") + "|" + std::to_string(ref.qname.size() / 16) + "|" + (host.size() != canon.size() ? "dot" : "") + "|x" + std::to_string(extra > 0));
}

void run(Ctx &ctx, const S &w) {
    const auto nl = w.find('\n');
    if (nl == S::npos || w.empty()) { ctx.grey(); return; }
    if (w[0] == 'Q') { runQuery(ctx, w, nl); return; }
    const S m = w.substr(nl + 1);
    if (w[0] == 'R') {
        const S f = judge(ctx, m, "datagram");
        ctx.ubsanGate({"dns/rfc"});
        if (f.empty()) { ctx.count("grey:odd-name"); ctx.grey(); } else ctx.feature("R|" + f, m.size() >= 12);
    } else if (w[0] == 'T') { // the message and every truncation of it
        const S f = judge(ctx, m, "datagram");
        S pat, last;
        for (size_t n = 0; n < m.size(); ++n) {
            const S g = judge(ctx, m.substr(0, n), "truncation");
            const S cls = g.substr(0, g.find('|'));
            if (cls != last && pat.size() < 80) { pat += ">" + cls; last = cls; }
        }
        ctx.count("truncations", (long)m.size());
        ctx.ubsanGate({"dns/rfc"});
        if (f.empty()) { ctx.count("grey:odd-name"); ctx.grey(); } else ctx.feature("T|" + f + "|" + std::to_string(Ctx::hash(pat) % 997));
    } else ctx.grey();
}

// ---------------------------------------------------------------- reference encoder / generators
S genLabel(Rng &r) {
    size_t n;
    switch (r.below(10)) { case 0: n = 63; break; case 1: n = 1; break; case 2: n = r.range(50, 62); break; default: n = r.range(1, 12); }
    if (r.chance(1, 25)) return r.bytes(n);          // arbitrary octets are legal in labels
    if (r.chance(1, 12)) { S s = r.from("abcXYZ019-_.", n); return s; }
    return r.from(r.coin() ? "abcdefghijklmnopqrstuvwxyz0123456789-" : "abcDEFxyz019-_", n);
}
std::vector<S> genName(Rng &r) {
    std::vector<S> l;
    const int n = r.chance(1, 20) ? 0 : r.chance(1, 15) ? (int)r.range(6, 20) : (int)r.range(1, 4);
    size_t wire = 1;
    for (int i = 0; i < n; ++i) { S x = genLabel(r); if (wire + x.size() + 1 > (r.chance(1, 30) ? 300u : 255u)) break; wire += x.size() + 1; l.push_back(x); }
    return l;
}

struct Enc {
    S m;
    std::vector<std::pair<std::vector<S>, size_t>> known; // label suffix -> offset
    Rng &r;
    int compress; // 0 never, 1 always when possible, 2 random
    explicit Enc(Rng &rr) : r(rr), compress((int)rr.below(3)) {}
    void name(const std::vector<S> &labels) {
        for (size_t i = 0; i <= labels.size(); ++i) {
            const std::vector<S> suffix(labels.begin() + i, labels.end());
            if (!suffix.empty() && compress && (compress == 1 || r.coin())) {
                for (auto &k : known) if (k.first == suffix && k.second < 0x4000) { m += be16(0xC000 | (unsigned)k.second); return; }
            }
            if (suffix.empty()) { m += '\0'; return; }
            if (m.size() < 0x4000) known.emplace_back(suffix, m.size());
            m += (char)labels[i].size(); m += labels[i];
        }
    }
    void rr(const std::vector<S> &owner, unsigned type, unsigned cls, uint32_t ttl, const S &rdata, const std::vector<S> *rdname) {
        name(owner);
        m += be16(type); m += be16(cls); m += be32(ttl);
        const size_t lenAt = m.size(); m += be16(0);
        if (rdname) name(*rdname); else m += rdata;
        const size_t n = m.size() - lenAt - 2;
        m[lenAt] = (char)(n >> 8); m[lenAt + 1] = (char)(n & 255);
    }
};

S genMessage(Rng &r) {
    Enc e(r);
    const unsigned id = (unsigned)r.below(65536);
    unsigned flags = r.chance(1, 6) ? (unsigned)r.below(65536) : (0x8000 | (r.coin() ? 0x0100 : 0) | (r.coin() ? 0x0080 : 0) | (r.chance(1, 8) ? 0x0400 : 0) | (r.chance(1, 20) ? 0x0200 : 0));
    flags &= ~15u;
    if (r.chance(1, 8)) flags |= (unsigned)r.pick(std::vector<int>{1, 2, 3, 4, 5, 15, 9});
    const unsigned qd = r.chance(1, 25) ? (unsigned)r.pick(std::vector<int>{0, 2, 3, 65535}) : 1;
    const int an = r.chance(1, 5) ? 0 : r.chance(1, 12) ? (int)r.range(7, 30) : (int)r.range(1, 6);
    const int ns = r.chance(1, 4) ? (int)r.range(1, 3) : 0, ar = r.chance(1, 4) ? (int)r.range(1, 2) : 0;
    e.m = be16(id) + be16(flags) + be16(qd) + be16(an) + be16(ns) + be16(ar);
    const std::vector<S> qn = genName(r);
    const unsigned qtype = (unsigned)r.pick(std::vector<int>{1, 1, 28, 28, 12, 5, 255, 16});
    for (unsigned i = 0; i < std::min(qd, 3u); ++i) { e.name(qn); e.m += be16(qtype); e.m += be16(r.chance(1, 20) ? (unsigned)r.below(65536) : 1); }
    std::vector<S> cur = qn;
    auto ttl = [&]() { return r.chance(1, 4) ? r.pick(std::vector<uint32_t>{0, 1, 0x7fffffff, 0x80000000u, 0xffffffffu, 86400}) : (uint32_t)r.below(1000000); };
    for (int i = 0; i < an + ns + ar; ++i) {
        const std::vector<S> owner = r.chance(1, 6) ? genName(r) : cur;
        switch (r.below(i >= an ? 9 : 7)) {
        case 0: case 1: e.rr(owner, 1, 1, ttl(), r.bytes(4), nullptr); break;
        case 2: e.rr(owner, 28, 1, ttl(), r.bytes(16), nullptr); break;
        case 3: { std::vector<S> t = r.coin() ? genName(r) : std::vector<S>(qn.begin() + (qn.empty() ? 0 : r.below(qn.size())), qn.end()); if (r.coin()) t.insert(t.begin(), genLabel(r)); size_t wl = 1; for (auto &x : t) wl += x.size() + 1; if (wl > 255) t.resize(1); e.rr(owner, 12, 1, ttl(), "", &t); break; }
        case 4: { std::vector<S> t = genName(r); if (r.coin() && !qn.empty()) t.insert(t.end(), qn.begin() + r.below(qn.size()), qn.end()); size_t wl = 1; for (auto &x : t) wl += x.size() + 1; if (wl > 255) t.resize(1); e.rr(owner, 5, 1, ttl(), "", &t); cur = t; break; }
        case 5: e.rr(owner, (unsigned)r.below(65536), (unsigned)r.below(65536), ttl(), r.bytes(r.chance(1, 3) ? 0 : r.below(40)), nullptr); break;
        case 6: e.rr(owner, r.coin() ? 1 : 28, 1, ttl(), r.bytes(r.pick(std::vector<int>{0, 1, 3, 5, 15, 17, 255, 600})), nullptr); break; // odd sizes for address types are still just bytes
        case 7: e.rr({}, 41, 4096, 0, "", nullptr); break;
        default: { std::vector<S> t = genName(r); e.rr(owner, 2, 1, ttl(), "", &t); break; }
        }
    }
    S m = e.m;
    // lies about counts, trailing bytes
    if (r.chance(1, 15)) { const unsigned v = r.chance(1, 25) ? 65535 : (unsigned)std::max<long>(0, an + r.range(-2, 3)); m[6] = (char)(v >> 8); m[7] = (char)v; }
    if (r.chance(1, 10)) m += r.bytes(r.below(8));
    return m;
}

S mutateMsg(Rng &r, S m) {
    const int n = (int)r.range(1, 4);
    for (int i = 0; i < n && !m.empty(); ++i) {
        const size_t pos = r.chance(1, 3) ? r.below(std::min<size_t>(m.size(), 40)) : r.below(m.size());
        switch (r.below(9)) {
        case 0: m[pos] = (char)r.next(); break;
        case 1: m[pos] ^= (char)(1 << r.below(8)); break;
        case 2: m.resize(pos); break;                                                            // truncation
        case 3: if (pos + 1 < m.size()) { m[pos] = (char)(0xC0 | (pos >> 8)); m[pos + 1] = (char)pos; } break; // pointer to itself
        case 4: if (pos + 1 < m.size()) { const size_t t = r.below(m.size() + 4); m[pos] = (char)(0xC0 | ((t >> 8) & 0x3f)); m[pos + 1] = (char)t; } break; // pointer anywhere (forward, past the end)
        case 5: m[pos] = (char)r.pick(std::vector<int>{0, 63, 64, 65, 127, 128, 191, 192, 255, 62}); break; // label-length / pointer-tag boundary
        case 6: m.insert(pos, r.bytes(r.range(1, 4))); break;
        case 7: m.erase(pos, r.range(1, 4)); break;
        default: if (pos + 3 < m.size()) { m[pos] = (char)0xC0; m[pos + 1] = (char)(pos + 2); m[pos + 2] = (char)0xC0; m[pos + 3] = (char)pos; } break; // two pointers at each other
        }
    }
    return m;
}

// hand-built pointer constructions after a header with one question
S hdr(unsigned an) { return be16(0x1234) + be16(0x8180) + be16(1) + be16(an) + be16(0) + be16(0); }
std::vector<S> pointerCorpus() {
    std::vector<S> v;
    const S q = S("\x03www") + S("\x07") + "example" + S("\x03") + "com" + S(1, '\0') + be16(1) + be16(1); // name at 12..28 (root byte at 28), question ends at 33
    const S a = be16(1) + be16(1) + be32(60) + be16(4) + S("\x01\x02\x03\x04", 4);
    v.push_back(hdr(1) + q + be16(0xC00C) + a);                         // plain compressed owner
    v.push_back(hdr(1) + be16(0xC00C) + be16(1) + be16(1));             // question name points at itself
    v.push_back(hdr(1) + be16(0xC00E) + be16(0xC00C) + be16(1) + be16(1)); // two pointers at each other
    v.push_back(hdr(1) + q + be16(0xC021) + a);                         // owner points at itself (offset 33)
    v.push_back(hdr(1) + q + be16(0xC023) + a);                         // forward pointer into own fixed fields
    v.push_back(hdr(1) + q + be16(0xFFFF) + a);                         // pointer far past the end
    v.push_back(hdr(1) + q + S("\xC0", 1));                             // pointer cut in half
    { S m = hdr(1) + q; const size_t base = m.size(); for (int i = 0; i < 80; ++i) m += be16(0xC000 | (i ? base + 2 * (i - 1) : 12)); const size_t last = base + 2 * 79; m += be16(0xC000 | last) + a; v.push_back(m); } // chain of 81 backward pointers
    { S m = hdr(1) + q; const size_t base = m.size(); for (int i = 0; i < 40; ++i) m += be16(0xC000 | (i ? base + 2 * (i - 1) : 12)); m += be16(0xC000 | (base + 2 * 39)) + a; v.push_back(m); } // chain of 41
    v.push_back(hdr(1) + q + be16(0xC01C) + a);                         // pointer to the root byte of the question name
    v.push_back(hdr(1) + q + S("\x03""abc", 4) + be16(0xC01C) + a);      // label, then pointer to a root byte
    v.push_back(hdr(1) + q + be16(0xC00C) + be16(12) + be16(1) + be32(5) + be16(2) + be16(0xC00C)); // PTR whose RDATA is a pointer
    v.push_back(hdr(1) + q + be16(0xC00C) + be16(12) + be16(1) + be32(5) + be16(2) + be16(0xC02D)); // PTR RDATA (at 45) pointing at itself
    v.push_back(hdr(1) + q + be16(0xC00C) + be16(12) + be16(1) + be32(5) + be16(1) + S("\x05", 1)); // PTR RDATA label runs off the end
    v.push_back(hdr(1) + q + be16(0xC00C) + be16(12) + be16(1) + be32(5) + be16(3) + S("\x01x\x00zzzz", 7)); // PTR name shorter than RDLENGTH... then junk
    { S big = hdr(1); for (int i = 0; i < 4; ++i) big += S(1, '\x3f') + S(63, 'a'); big += S("\x00", 1) + be16(1) + be16(1); v.push_back(big); }           // 4 x 63 octets: 257 on the wire, too long
    { S big = hdr(1); for (int i = 0; i < 3; ++i) big += S(1, '\x3f') + S(63, 'a'); big += S(1, '\x3d') + S(61, 'b'); big += S("\x00", 1) + be16(1) + be16(1); v.push_back(big); } // exactly 255
    { S big = hdr(1); for (int i = 0; i < 3; ++i) big += S(1, '\x3f') + S(63, 'a'); big += S(1, '\x3e') + S(62, 'b'); big += S("\x00", 1) + be16(1) + be16(1); v.push_back(big); } // 256
    { S big = hdr(1); for (int i = 0; i < 127; ++i) big += S("\x01z", 2); big += S("\x00", 1) + be16(1) + be16(1); v.push_back(big); }                         // 127 one-octet labels: 255
    { S big = hdr(1); for (int i = 0; i < 128; ++i) big += S("\x01z", 2); big += S("\x00", 1) + be16(1) + be16(1); v.push_back(big); }                         // 257
    return v;
}

S genHost(Rng &r) {
    S h;
    const int n = (int)r.range(1, r.chance(1, 8) ? 30 : 4);
    for (int i = 0; i < n; ++i) {
        size_t len = r.chance(1, 10) ? 63 : r.chance(1, 30) ? r.range(64, 80) : r.range(1, 14);
        if (h.size() + len + 1 > 253 && !r.chance(1, 20)) break;
        if (i) h += '.';
        h += r.from("abcdefghijklmnopqrstuvwxyzABCXYZ0123456789-_", len);
    }
    if (h.empty()) h = "a";
    if (r.chance(1, 5)) h += '.';
    if (r.chance(1, 25)) h.insert(r.below(h.size() + 1), r.pick({"..", ".", " ", "*", "\xc3\xa9", "@"}));
    return h;
}

S gen(Rng &r) {
    switch (r.below(20)) {
    case 0: case 1: case 2: { // query builders
        const char fn = "apA64P"[r.below(6)];
        const long edns = r.chance(1, 3) ? 0 : (long)r.pick(std::vector<int>{-1, 1, 511, 512, 1280, 4096, 16383, 16384, 65535, 65536, 100000});
        const unsigned extra = r.chance(1, 2) ? 0 : (unsigned)r.below(64);
        S arg = fn == 'p' || fn == '4' ? (r.chance(1, 4) ? S(4, r.coin() ? '\0' : '\xff') : r.bytes(4)) : fn == 'P' ? (r.chance(1, 6) ? S(16, r.coin() ? '\0' : '\xff') : r.bytes(16)) : genHost(r);
        return "Q " + S(1, fn) + " " + std::to_string(r.chance(1, 4) ? r.pick(std::vector<int>{0, 1, 255, 256, 65535}) : (int)r.below(65536)) + " " + std::to_string(edns) + " " + std::to_string(extra) + "\n" + arg;
    }
    case 3: return "R\n" + r.bytes(r.below(40));
    case 4: { const std::vector<S> c = pointerCorpus(); return "R\n" + mutateMsg(r, c[r.below(c.size())]); }
    case 5: { // the message and all its truncations; ancount kept small (the unpacker allocates ancount records up front for every one of them)
        S m = genMessage(r); if (m.size() > 400) m.resize(400);
        if (r.coin()) m = mutateMsg(r, m);
        if (m.size() >= 8 && u16(m, 6) > 64) { m[6] = 0; m[7] = (char)(u8(m, 7) & 63); }
        return "T\n" + m; }
    default: {
        S m = genMessage(r);
        if (r.chance(2, 5)) {
            m = mutateMsg(r, m);
            // a huge ancount costs an 18 MB allocation per unpack: keep that to about one mutated case in a hundred
            if (m.size() >= 8 && u16(m, 6) > 255 && !r.chance(1, 10)) m[6] = 0;
        }
        return "R\n" + m; }
    }
}

int drive(Ctx &ctx) {
    { // UBSan reports a source location once per process: provoke the known harmless memcpy(dst, nullptr, 0) of the
      // EDNS OPT packer (rfc1035RRPack, rdata == nullptr, rdlength == 0) before any case is open, so that it is never attributed
        char tmp[64];
        rfc2671RROptPack(tmp, sizeof tmp, 4096);
    }
    if (!ctx.replaying && ctx.shard == 0) {
        long n = 0;
        for (const S &m : pointerCorpus()) { const S w = "T\n" + m; ctx.begin(w); run(ctx, w); ++n; }
        for (const char *h : {"a", "a.", "www.example.com", "www.example.com.", "xn--bcher-kva.example", "_sip._tcp.example.org"})
            for (char fn : {'a', 'A', '6'}) for (long e : {0L, 4096L}) { const S w = S("Q ") + fn + " 4660 " + std::to_string(e) + " 0\n" + h; ctx.begin(w); run(ctx, w); ++n; }
        ctx.count("fixed_corpus_cases", n);
    }
    return vh::Loop(ctx, gen, run);
}

} // namespace

VH_REGISTER(C37, drive, "DNS message unpacking vs strict reference decoder (compression, loops, truncations) + query builders decode back");
