// C49 In-memory object data returns exactly what was written.
// Differential oracle: mem_hdr (src/stmem.cc) driven by a write/free/copy/contiguity history next to a byte-array
// model with three states per byte (absent, present, released-but-possibly-kept). The driver honours the class's
// caller contract (DESIGN 5.2 C49): writes never touch bytes that may be in memory, copy() is only asked for
// ranges whose first byte is present, lengths > 0. A case is the whole history (text); the mem_hdr is created
// fresh inside run().
#include "squid.h"
#include "vh.h"
#include "mem/Pool.h"
#include "mem_node.h"
#include "stmem.h"
#include "StoreIOBuffer.h"

#include <sstream>

using vh::Ctx;
using vh::Rng;

namespace {

const int64_t Span = 7 * SM_PAGE_SIZE; // offsets used by a case are base .. base+Span
enum : uint8_t { Absent = 0, Present = 1, Maybe = 2 }; // Maybe: released by freeDataUpto() but not reported gone

// (buffers are static and re-zeroed per case: large allocations are slow under ASan)
uint8_t StateBuf[Span], ByteBuf[Span], GenBuf[Span];
char SrcBuf[Span + 1], DstBuf[Span + 1];
struct Model {
    uint8_t *state, *byte;
    Model() : state(StateBuf), byte(ByteBuf) { memset(StateBuf, Absent, sizeof StateBuf); memset(ByteBuf, 0, sizeof ByteBuf); }
    bool anyNonAbsent(int64_t a, int64_t b) const { for (int64_t i = a; i < b; ++i) if (state[i] != Absent) return true; return false; }
    int64_t run(int64_t a, int64_t limit, bool certainOnly) const { int64_t i = a; while (i < limit && (state[i] == Present || (!certainOnly && state[i] == Maybe))) ++i; return i - a; }
};

char content(size_t step, int64_t rel) { uint64_t h = (step + 1) * 0x9E3779B97F4A7C15ULL ^ (uint64_t)rel * 0xBF58476D1CE4E5B9ULL; h ^= h >> 29; return (char)(h * 0x94D049BB133111EBULL >> 56); }

// history: "B <base> <pools> | ops" (pools 0: freed nodes return to malloc so that ASan sees stale accesses; slow): W rel len | F rel | C rel len | H rel len | N rel | P rel | Q | Z
struct Op { char code; int64_t rel, len; };
bool decode(const std::string &w, int64_t &base, int &pools, std::vector<Op> &ops) {
    std::istringstream is(w);
    std::string t; long long b;
    if (!(is >> t) || t != "B" || !(is >> b >> pools) || b < 0 || b > (1LL << 61)) return false;
    base = b;
    while (is >> t) {
        if (t.size() != 1) return false;
        Op o{t[0], 0, 0};
        long long x = 0, y = 0;
        switch (o.code) {
        case 'W': case 'C': case 'H': if (!(is >> x >> y)) return false; break;
        case 'F': case 'N': case 'P': if (!(is >> x)) return false; break;
        case 'Q': case 'Z': break;
        default: return false;
        }
        o.rel = x; o.len = y;
        if (o.rel < 0 || o.len < 0 || o.rel > Span || o.rel + o.len > Span) return false;
        ops.push_back(o);
    }
    return true;
}

void run(Ctx &ctx, const std::string &w) {
    int64_t base; int pools = 1;
    std::vector<Op> ops;
    if (!decode(w, base, pools, ops)) return;
    MemPools::GetInstance().setIdleLimit(pools ? (2 << 20) : 0);
    Model m;
    long nW = 0, nF = 0, nC = 0, nH = 0, skipped = 0, softCopies = 0, greyH = 0, partial = 0, freedNodes = 0, multiPage = 0, sparse = 0;
    bool dead = false;
    {
        mem_hdr h;
        std::vector<char *> pending; // node buffers handed out by NodeGet()
        int64_t top = -1, lowPresent = -1;
        for (size_t n = 0; n < ops.size() && !dead; ++n) {
            const Op &o = ops[n];
            auto where = [&]() { return "step " + std::to_string(n) + " '" + std::string(1, o.code) + " " + std::to_string(o.rel) + " " + std::to_string(o.len) + "' (base " + std::to_string(base) + "): "; };
            auto fail = [&](const std::string &key, const std::string &d) { ctx.violation(key, where() + d); dead = true; };
            switch (o.code) {
            case 'W': {
                if (o.len <= 0 || m.anyNonAbsent(o.rel, o.rel + o.len)) { ++skipped; break; } // caller contract: no overlap with data that is (or may be) in memory
                char *src = SrcBuf;
                for (int64_t i = 0; i < o.len; ++i) src[i] = content(n, o.rel + i);
                const bool below = m.anyNonAbsent(o.rel + o.len, Span);
                const bool ok = h.write(StoreIOBuffer((size_t)o.len, base + o.rel, src));
                if (!ok) { fail("write:refused", "write() of a non-overlapping range returned false"); break; }
                for (int64_t i = 0; i < o.len; ++i) { m.state[o.rel + i] = Present; m.byte[o.rel + i] = (uint8_t)src[i]; }
                ++nW; if (below) ++sparse; if (o.len > SM_PAGE_SIZE) ++multiPage;
                break; }
            case 'F': {
                const size_t before = h.size();
                const int64_t low = h.freeDataUpto(base + o.rel);
                ++nF; freedNodes += (long)(before - h.size());
                if (low != h.lowestOffset()) { fail("free:return", "freeDataUpto() returned " + std::to_string(low) + " but lowestOffset() is " + std::to_string(h.lowestOffset())); break; }
                // bytes below the reported lowest offset are gone; released bytes at or above it may have been kept
                for (int64_t i = 0; i < o.rel; ++i) {
                    if (m.state[i] == Absent) continue;
                    m.state[i] = (h.size() && base + i >= low) ? Maybe : Absent;
                }
                // nothing at or after the release offset may be lost: checked by the sweep below
                break; }
            case 'C': {
                if (o.len <= 0 || o.rel >= Span || m.state[o.rel] != Present) { ++skipped; break; } // contract: first byte present
                char *dst = DstBuf; memset(dst, 'Z', o.len + 1);
                const ssize_t got = h.copy(StoreIOBuffer((size_t)o.len, base + o.rel, dst));
                ++nC;
                const int64_t lo = m.run(o.rel, o.rel + o.len, true), hi = m.run(o.rel, o.rel + o.len, false);
                if (lo != hi) ++softCopies;
                if (lo < o.len) ++partial;
                if (got < lo) { fail("copy:short", "copy() returned " + std::to_string(got) + " bytes; " + std::to_string(lo) + " written bytes are contiguous from the start"); break; }
                if (got > hi) { fail("copy:long", "copy() returned " + std::to_string(got) + " bytes but the byte at +" + std::to_string(hi) + " was never written (or was released and reported gone)"); break; }
                if (dst[o.len] != 'Z') { fail("copy:overrun", "copy() wrote past the target length"); break; }
                for (ssize_t i = 0; i < got; ++i) if ((uint8_t)dst[i] != m.byte[o.rel + i]) { fail("copy:content", "byte at offset +" + std::to_string(o.rel + i) + " is " + std::to_string((uint8_t)dst[i]) + ", written " + std::to_string(m.byte[o.rel + i])); break; }
                break; }
            case 'H': {
                const bool got = h.hasContigousContentRange(Range<int64_t>(base + o.rel, base + o.rel + o.len));
                ++nH;
                bool anyAbsent = false, anyMaybe = false;
                for (int64_t i = o.rel; i < o.rel + o.len; ++i) { if (m.state[i] == Absent) anyAbsent = true; else if (m.state[i] == Maybe) anyMaybe = true; }
                if (anyAbsent) { if (got) fail("contig:false-positive", "hasContigousContentRange() is true but a byte in the range is not in memory"); }
                else if (anyMaybe) ++greyH; // released bytes may legitimately be kept or not
                else if (!got) fail("contig:false-negative", "hasContigousContentRange() is false but every byte of the range was written and not released");
                break; }
            case 'N': {
                mem_node *p = h.getBlockContainingLocation(base + o.rel);
                if (o.rel >= Span) break;
                if (m.state[o.rel] == Present && !p) fail("node:missing", "getBlockContainingLocation() found no node for a written byte");
                else if (m.state[o.rel] == Absent && p) fail("node:phantom", "getBlockContainingLocation() found a node for a byte that is not in memory");
                else if (p && !p->contains(base + o.rel)) fail("node:wrong", "returned node does not contain the location");
                break; }
            case 'P': { // hand a node to the "disk writer": it must not be freed until the write completes
                if (o.rel >= Span || m.state[o.rel] != Present) { ++skipped; break; }
                mem_node *p = h.getBlockContainingLocation(base + o.rel);
                if (p && !p->write_pending) pending.push_back(h.NodeGet(p));
                break; }
            case 'Q': for (char *d : pending) memNodeWriteComplete(d); pending.clear(); break;
            case 'Z': pending.clear(); h.freeContent(); memset(m.state, Absent, Span); break;
            }
            if (dead) break;
            // invariants after every step
            if (o.code == 'W' || o.code == 'F' || o.code == 'Z') { // only these change the model
                top = -1; lowPresent = -1;
                const uint8_t *st = m.state;
                for (int64_t i = Span - 1; i >= 0; --i) if (st[i] != Absent) { top = i; break; }
                for (int64_t i = 0; i < Span; ++i) if (st[i] == Present) { lowPresent = i; break; }
            }
            const int64_t expEnd = top < 0 ? 0 : base + top + 1;
            if (h.endOffset() != expEnd) { fail("endOffset:value", "endOffset() is " + std::to_string(h.endOffset()) + ", highest byte in memory + 1 is " + std::to_string(expEnd)); break; }
            if (lowPresent >= 0 && h.lowestOffset() > base + lowPresent) { fail("lowestOffset:above-data", "lowestOffset() " + std::to_string(h.lowestOffset()) + " is above written byte " + std::to_string(base + lowPresent)); break; }
            if (o.code == 'F' || n + 1 == ops.size() || (o.code == 'W' && n % 4 == 0)) {
                // sweep: every maximal run of present bytes must be reported contiguous and read back exactly
                for (int64_t i = 0; i < Span && !dead;) {
                    if (m.state[i] != Present) { ++i; continue; }
                    const int64_t len = m.run(i, Span, true);
                    if (!h.hasContigousContentRange(Range<int64_t>(base + i, base + i + len))) { fail(o.code == 'F' ? "free:lost-data" : "sweep:not-contiguous", "written range +" + std::to_string(i) + "..+" + std::to_string(i + len) + " is no longer reported contiguous"); break; }
                    char *dst = DstBuf;
                    const ssize_t got = h.copy(StoreIOBuffer((size_t)len, base + i, dst));
                    if (got < len || memcmp(dst, &m.byte[i], len) != 0) { fail(o.code == 'F' ? "free:lost-data" : "sweep:content", "written range +" + std::to_string(i) + "..+" + std::to_string(i + len) + " reads back " + std::to_string(got) + " bytes / different bytes"); break; }
                    i += len;
                }
            }
        }
        for (char *d : pending) memNodeWriteComplete(d);
    }
    ctx.ubsanGate({"stmem.cc", "mem_node.cc", "splay.h"});
    auto b = [](long v) { return v == 0 ? "0" : v < 4 ? "1" : v < 16 ? "2" : "3"; };
    ctx.feature(std::string("b") + (base == 0 ? "0" : base < 4096 ? "s" : base < (1LL << 31) ? "m" : base < (1LL << 33) ? "4G" : "L") + " w" + b(nW) + " f" + b(nF) + " n" + b(freedNodes) + " c" + b(nC) + " p" + b(partial) + " h" + b(nH) + " g" + b(greyH) + " s" + b(sparse) + " M" + b(multiPage) + (pools ? "" : " nopool"), nW + nF + nC + nH > 0);
    ctx.count("writes", nW); ctx.count("frees", nF); ctx.count("copies", nC); ctx.count("contiguity_queries", nH);
    ctx.count("ops_skipped_by_caller_contract", skipped); ctx.count("copies_into_released_bytes_soft", softCopies);
    ctx.count("contiguity_over_released_bytes_not_judged", greyH); ctx.count("nodes_freed", freedNodes); ctx.count("sparse_writes", sparse);
    ctx.count("partial_copies_hitting_a_gap", partial);
}

std::string gen(Rng &r) {
    static const long long bases[] = {0, 0, 0, 1, 4095, 4096, 100000, (1LL << 31) - 5000, (1LL << 32) - 4096 - 7, (1LL << 40) + 3};
    const long long base = bases[r.below(sizeof bases / sizeof *bases)];
    std::string s = "B " + std::to_string(base) + (r.chance(1, 5) ? " 0" : " 1");
    // generator-side approximation of the model: 0 absent, 1 present, 2 released (maybe kept)
    uint8_t *st = GenBuf; memset(st, 0, Span);
    const int nops = 4 + (int)r.below(r.chance(1, 4) ? 120 : 40);
    int64_t cursor = r.chance(1, 2) ? 0 : (int64_t)r.below(SM_PAGE_SIZE * 2); // sequential-append position
    auto page = [&](int64_t v) { static const int64_t d[] = {-2, -1, 0, 1, 2}; int64_t x = (int64_t)r.below(7) * SM_PAGE_SIZE + d[r.below(5)]; (void)v; return std::max<int64_t>(0, std::min<int64_t>(Span - 1, x)); };
    auto someLen = [&]() -> int64_t { switch (r.below(8)) { case 0: return 1; case 1: return SM_PAGE_SIZE; case 2: return SM_PAGE_SIZE + r.range(-2, 2); case 3: return 2 * SM_PAGE_SIZE + r.range(-1, 1); case 4: return 1 + (int64_t)r.below(9000); default: return 1 + (int64_t)r.below(700); } };
    for (int n = 0; n < nops; ++n) {
        const unsigned k = (unsigned)r.below(20);
        if (k < 8) { // write
            int64_t rel, len = someLen();
            if (r.chance(3, 5)) rel = cursor;                       // append where the last write ended
            else if (r.chance(1, 2)) rel = page(0);                 // page boundaries
            else rel = (int64_t)r.below(Span);
            if (rel >= Span) rel = Span - 1;
            // shorten to the free gap so that the contract usually holds
            int64_t gap = 0; while (rel + gap < Span && st[rel + gap] == 0 && gap < len) ++gap;
            if (gap == 0 && !r.chance(1, 10)) { // find the next absent byte
                int64_t j = rel; while (j < Span && st[j] != 0) ++j; if (j >= Span) continue; rel = j; gap = 0; while (rel + gap < Span && st[rel + gap] == 0 && gap < len) ++gap;
            }
            if (gap > 0) len = r.chance(1, 6) ? gap : std::min(len, gap);
            if (rel + len > Span) len = Span - rel;
            if (len <= 0) continue;
            s += " W " + std::to_string(rel) + " " + std::to_string(len);
            bool ok = true; for (int64_t i = rel; i < rel + len; ++i) if (st[i] != 0) ok = false;
            if (ok) { for (int64_t i = rel; i < rel + len; ++i) st[i] = 1; cursor = rel + len; }
        } else if (k < 10) { // release
            int64_t x = r.chance(1, 2) ? page(0) : (int64_t)r.below(Span + 1);
            if (r.chance(1, 4)) { int64_t e = 0; for (int64_t i = 0; i < Span; ++i) if (st[i]) e = i + 1; x = std::max<int64_t>(0, std::min<int64_t>(Span, e + r.range(-3, 3))); }
            s += " F " + std::to_string(x);
            for (int64_t i = 0; i < x && i < Span; ++i) if (st[i] == 1) st[i] = 2;
        } else if (k < 15) { // copy from a present byte
            int64_t rel = -1;
            for (int tries = 0; tries < 6 && rel < 0; ++tries) { int64_t c = r.chance(1, 2) ? page(0) : (int64_t)r.below(Span); if (st[c] == 1) rel = c; }
            if (rel < 0) { for (int64_t i = 0; i < Span; ++i) if (st[i] == 1) { rel = i; break; } }
            if (rel < 0) continue;
            int64_t len = someLen(); if (rel + len > Span) len = Span - rel;
            s += " C " + std::to_string(rel) + " " + std::to_string(len);
        } else if (k < 18) { // contiguity
            int64_t rel = r.chance(1, 2) ? page(0) : (int64_t)r.below(Span);
            int64_t len = r.chance(1, 10) ? 0 : someLen(); if (rel + len > Span) len = Span - rel;
            s += " H " + std::to_string(rel) + " " + std::to_string(len);
        } else if (k == 18) {
            const unsigned q = (unsigned)r.below(8);
            if (q < 4) s += " N " + std::to_string(r.below(Span));
            else if (q < 6) s += " P " + std::to_string(r.chance(1, 2) ? page(0) : (int64_t)r.below(Span));
            else s += " Q";
        } else if (r.chance(1, 6)) { s += " Z"; memset(st, 0, Span); cursor = 0; }
    }
    return s;
}

int drive(Ctx &ctx) {
    return vh::Loop(ctx, gen, run);
}

} // namespace

VH_REGISTER(C49, drive, "mem_hdr write/free/copy/contiguity histories vs byte-array model (caller contract respected)");
