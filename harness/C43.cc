// C43 Integer-range ACLs match exactly the configured ranges.
// Differential oracle: the real ACLIntRange::parse() (fed through ConfigParser, possibly over several
// "acl" lines, i.e. several parse() calls on one object) and ACLIntRange::match() against a set model:
// n matches iff n lies in the union of the listed closed ranges.
#include "squid.h"
#include "vh.h"
#include "acl/IntRange.h"
#include "ConfigParser.h"
#include "sbuf/SBuf.h"

#include <climits>
#include <algorithm>

using vh::Ctx;
using vh::Rng;

namespace {

// case encoding:
//   line 1: probes, either "lo..hi" (every integer of the closed interval) or a comma separated list
//   every further line: one configuration line (token list) handed to one ACLIntRange::parse() call
// tokens are "N" or "N-M" with 0 <= N <= M <= 65535, plain decimal (anything else makes squid
// self_destruct(), i.e. is a rejected configuration and outside the statement)
struct Case {
    std::vector<long> probes;
    std::vector<std::string> lines;
};

bool parseLong(const std::string &s, long &v) {
    if (s.empty()) return false;
    char *e = nullptr;
    v = strtol(s.c_str(), &e, 10);
    return e && !*e;
}

bool dec(const std::string &w, Case &c) {
    const auto nl = w.find('\n');
    if (nl == std::string::npos) return false;
    const std::string head = w.substr(0, nl);
    const auto dots = head.find("..");
    if (dots != std::string::npos) {
        long lo, hi;
        if (!parseLong(head.substr(0, dots), lo) || !parseLong(head.substr(dots + 2), hi)) return false;
        if (hi - lo > 100000) return false;
        for (long p = lo; p <= hi; ++p) c.probes.push_back(p);
    } else {
        size_t i = 0;
        while (i <= head.size()) {
            auto j = head.find(',', i);
            if (j == std::string::npos) j = head.size();
            long v;
            if (j > i) { if (!parseLong(head.substr(i, j - i), v)) return false; c.probes.push_back(v); }
            i = j + 1;
        }
    }
    size_t i = nl + 1;
    while (i < w.size()) {
        auto j = w.find('\n', i);
        if (j == std::string::npos) j = w.size();
        c.lines.push_back(w.substr(i, j - i));
        i = j + 1;
    }
    return true;
}

struct Iv { long lo, hi; };

// the reference reads the configuration text itself; returns false when a token is outside the
// judged grammar (then the case is not executed at all: squid would terminate the process)
bool refParse(const Case &c, std::vector<Iv> &ivs) {
    for (const auto &l : c.lines) {
        if (l.size() > 4000) return false;
        size_t i = 0;
        while (i < l.size()) {
            while (i < l.size() && (l[i] == ' ' || l[i] == '\t')) ++i;
            size_t j = i;
            while (j < l.size() && l[j] != ' ' && l[j] != '\t') ++j;
            if (j == i) break;
            const std::string t = l.substr(i, j - i);
            i = j;
            for (char ch : t) if (!(ch >= '0' && ch <= '9') && ch != '-') return false;
            const auto d = t.find('-');
            std::string a = t, b;
            if (d != std::string::npos) { a = t.substr(0, d); b = t.substr(d + 1); if (b.find('-') != std::string::npos) return false; }
            if (a.empty() || a.size() > 5 || (d != std::string::npos && (b.empty() || b.size() > 5))) return false;
            if (a.size() > 1 && a[0] == '0') return false; // leading zeros: base not settled by the statement
            if (b.size() > 1 && b[0] == '0') return false;
            const long lo = atol(a.c_str());
            const long hi = d == std::string::npos ? lo : atol(b.c_str());
            if (lo > 65535 || hi > 65535 || hi < lo) return false;
            ivs.push_back({lo, hi});
        }
    }
    return true;
}

bool refMatch(const std::vector<Iv> &ivs, long n) {
    for (const auto &iv : ivs) if (iv.lo <= n && n <= iv.hi) return true;
    return false;
}

std::string enc(const std::string &probes, const std::vector<std::string> &lines) {
    std::string w = probes + "\n";
    for (size_t i = 0; i < lines.size(); ++i) { if (i) w += "\n"; w += lines[i]; }
    return w;
}

std::string tok(long lo, long hi, bool forceRange = false) {
    if (lo == hi && !forceRange) return std::to_string(lo);
    return std::to_string(lo) + "-" + std::to_string(hi);
}

long genPoint(Rng &r, const std::vector<long> &anchors) {
    switch (r.below(6)) {
    case 0: return (long)r.pick(std::vector<long>{0, 1, 2, 79, 80, 81, 255, 256, 1023, 1024, 1025, 32767, 32768, 32769, 65533, 65534, 65535});
    case 1: case 2: if (!anchors.empty()) { long v = anchors[r.below(anchors.size())] + r.range(-2, 2); return std::min(65535L, std::max(0L, v)); } /* fall through */
    case 3: return (long)r.below(65536);
    case 4: return (long)r.below(300);
    default: return (long)r.below(20);
    }
}

std::string gen(Rng &r) {
    const bool tiny = r.chance(1, 5);                 // dense lists over 0..15
    size_t n = r.chance(1, 30) ? 0 : 1 + r.below(r.chance(1, 6) ? 24 : 7);
    std::vector<long> anchors;
    std::vector<std::string> toks;
    for (size_t i = 0; i < n; ++i) {
        long a, b;
        if (tiny) { a = r.below(16); b = r.below(16); }
        else {
            a = genPoint(r, anchors);
            switch (r.below(5)) {
            case 0: b = a; break;
            case 1: b = a + (long)r.below(4); break;
            case 2: b = a + (long)r.below(2000); break;
            case 3: b = genPoint(r, anchors); break;
            default: b = r.chance(1, 8) ? 65535 : a + (long)r.below(40); break;
            }
        }
        if (b < a) std::swap(a, b);
        if (b > 65535) b = 65535;
        anchors.push_back(a); anchors.push_back(b);
        if (!toks.empty() && r.chance(1, 10)) toks.push_back(r.pick(toks)); // exact duplicate
        toks.push_back(tok(a, b, r.chance(1, 6)));
    }
    // spread tokens over 1..3 parse() calls
    const size_t nl = 1 + (r.chance(1, 3) ? r.below(3) : 0);
    std::vector<std::string> lines(nl);
    for (auto &t : toks) {
        std::string &l = lines[r.below(nl)];
        if (!l.empty()) l += r.chance(1, 8) ? (r.coin() ? "\t" : "  ") : " ";
        l += t;
    }
    // probes
    std::string probes;
    if (tiny) probes = "-2..18";
    else {
        std::set<long> ps;
        for (long a : anchors) for (long d = -1; d <= 1; ++d) ps.insert(a + d);
        for (int i = 0; i < 6; ++i) ps.insert(genPoint(r, anchors));
        for (long v : {-1L, 0L, 65535L, 65536L}) ps.insert(v);
        if (r.chance(1, 4)) ps.insert(r.pick(std::vector<long>{-65536, -2, 65537, 65536 + 80, 131071, 131072, (long)INT_MAX - 1, (long)INT_MIN, (long)INT_MIN + 1, 1L << 16 | 443, -65535 + 80}));
        if (r.chance(1, 4) && !anchors.empty()) ps.insert(anchors[r.below(anchors.size())] + 65536 * r.range(-2, 2)); // 16-bit aliases
        if (r.chance(1, 50)) ps.insert((long)INT_MAX);
        for (long p : ps) { if (!probes.empty()) probes += ","; probes += std::to_string(p); }
    }
    return enc(probes, lines);
}

void run(Ctx &ctx, const std::string &w) {
    Case c;
    if (!dec(w, c)) return;
    std::vector<Iv> ivs;
    if (!refParse(c, ivs)) { ctx.grey(); return; } // not a judged configuration (squid would self_destruct)

    ACLIntRange data;
    for (const auto &l : c.lines) {
        char *line = xstrdup(l.c_str());
        ConfigParser::SetCfgLine(line);
        data.parse();
        ConfigParser::SetCfgLine(nullptr); // drops the parser's token copies; the line itself stays ours
        xfree(line);
    }

    long matched = 0, wrong = 0;
    bool small = true;
    for (const auto &iv : ivs) if (iv.hi > 15) small = false;
    uint32_t mask = 0;
    for (long p : c.probes) {
        if (p < INT_MIN || p > INT_MAX) continue;
        const bool got = data.match((int)p);
        const bool exp = refMatch(ivs, p);
        if (got) ++matched;
        if (small && p >= 0 && p <= 15 && exp) mask |= 1u << p;
        if (got != exp) {
            ++wrong;
            const char *where = (p < 0 || p > 65535) ? "outside-16bit" : "in-16bit";
            ctx.violation(std::string(exp ? "intrange:missed:" : "intrange:false-match:") + where,
                          "match(" + std::to_string(p) + ") returned " + (got ? "true" : "false") + " but the union of the listed ranges " + (exp ? "contains" : "does not contain") + " it");
        }
    }
    ctx.count("matches_compared", (long)c.probes.size());
    if (data.empty() != ivs.empty())
        ctx.violation("intrange:empty", std::string("empty() returned ") + (data.empty() ? "true" : "false") + " for a list of " + std::to_string(ivs.size()) + " values");
    ctx.ubsanGate({}); // statement does not speak of UB: reports become notes (match(INT_MAX) computes i+1)

    // feature vector: structure of the configured list, not its raw values
    if (ivs.empty()) { ctx.feature("empty", false); return; }
    std::string feat;
    if (small) {
        feat = "S" + std::to_string(std::min<size_t>(ivs.size(), 4)) + ":" + std::to_string(mask);
    } else {
        std::vector<Iv> s = ivs;
        std::sort(s.begin(), s.end(), [](const Iv &a, const Iv &b) { return a.lo < b.lo || (a.lo == b.lo && a.hi < b.hi); });
        int merged = 1, dup = 0, overlap = 0, adjacent = 0, nested = 0;
        long curHi = s[0].hi;
        for (size_t i = 1; i < s.size(); ++i) {
            if (s[i].lo == s[i - 1].lo && s[i].hi == s[i - 1].hi) ++dup;
            else if (s[i].lo <= curHi && s[i].hi <= curHi) ++nested;
            else if (s[i].lo <= curHi) ++overlap;
            else if (s[i].lo == curHi + 1) ++adjacent;
            if (s[i].lo > curHi + 1) ++merged;
            curHi = std::max(curHi, s[i].hi);
        }
        auto b = [](long v) { return v == 0 ? 0 : v == 1 ? 1 : v < 4 ? 2 : v < 8 ? 3 : 4; };
        feat = "R" + std::to_string(b((long)ivs.size())) + "m" + std::to_string(b(merged)) + "d" + std::to_string(b(dup)) + "o" + std::to_string(b(overlap)) +
               "a" + std::to_string(b(adjacent)) + "n" + std::to_string(b(nested)) + "l" + std::to_string(c.lines.size()) +
               (s.front().lo == 0 ? "z" : "") + (curHi == 65535 ? "t" : "") + "h" + std::to_string(b(matched));
    }
    ctx.feature(feat);
}

// exhaustive small scope: every list of up to `len` values (single numbers and ranges) over 0..top,
// in every order (lists are sequences), probed at every integer of -2..top+2
void exhaustive(Ctx &ctx, int top, int len) {
    std::vector<std::string> vals;
    for (int a = 0; a <= top; ++a) for (int b = a; b <= top; ++b) vals.push_back(tok(a, b));
    const std::string probes = "-2.." + std::to_string(top + 2);
    const long V = (long)vals.size();
    long total = 1;
    for (int i = 0; i < len; ++i) total *= V;
    long n = 0;
    for (long idx = ctx.shard; idx < total; idx += ctx.nshards) {
        long x = idx;
        std::string line;
        for (int i = 0; i < len; ++i) { if (i) line += " "; line += vals[x % V]; x /= V; }
        // alternate between one parse() call and one call per value
        std::string w;
        if (len > 1 && (idx / ctx.nshards) % 3 == 2) { std::string l2 = line; std::replace(l2.begin(), l2.end(), ' ', '\n'); w = probes + "\n" + l2; }
        else w = probes + "\n" + line;
        ctx.begin(w); run(ctx, w); ++n;
    }
    ctx.count("exhaustive_lists_top" + std::to_string(top) + "_len" + std::to_string(len), n);
}

int drive(Ctx &ctx) {
    if (!ctx.replaying) {
        exhaustive(ctx, 15, 1);
        exhaustive(ctx, 15, 2);            // 136^2 = 18 496 lists
        exhaustive(ctx, 7, 3);             // 36^3  = 46 656 lists
        if (ctx.thorough) exhaustive(ctx, 15, 3); // 136^3 = 2 515 456 lists
        ctx.exhaustive = true;
    }
    return vh::Loop(ctx, gen, run);
}

} // namespace

VH_REGISTER(C43, drive, "ACLIntRange parse/match vs union-of-ranges set model (exhaustive 0..15 + random 16-bit lists)");
