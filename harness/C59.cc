// C59 Timed events fire in order and never after cancellation.
// Differential/monitoring oracle: a fresh EventScheduler per case, current_dtime controlled by the case, every
// checkEvents() followed by draining the AsyncCallQueue; the log of fired events is checked against the statement:
// never before the due time, due-time order (equal times in scheduling order), cancelled events never fire,
// cancelling one event leaves all others scheduled (each fires exactly once by the end of the history).
// Contract respected (DESIGN 5.2 C59): every event has its own non-null arg, cbdata=false, only pending events
// are cancelled. A case is the whole schedule/cancel/advance history (text).
#include "squid.h"
#include "vh.h"
#include "base/AsyncCallQueue.h"
#include "event.h"
#include "time/gadgets.h"

#include <cmath>
#include <deque>
#include <sstream>

using vh::Ctx;
using vh::Rng;

namespace {

struct Ev {
    int id = 0, func = 0, weight = 0;
    double when = 0;       // delay given to schedule()
    double schedTime = 0;  // clock when scheduled
    double strictDue = 0;  // schedTime + max(when, 0): the due time in the plain reading of the statement
    double codeKey = 0;    // documented rule: when > 0 ? schedTime + when : 0 ("zero timestamp for when=0 events")
    bool cancelled = false;
    int fired = 0;
    double firedAt = 0;
    int chain = 0;         // on fire: schedule a child with delay cwhen (0 = none, 1 = light child, 2 = heavy child)
    double cwhen = 0;
    int cancelOnFire = -1; // on fire: cancel the n-th event still queued in the scheduler (-1 = none)
    int slot = 0;          // index of the argument group; &groups[slot] is the event's arg
};

// Events with DIFFERENT handlers may legitimately share one argument object (cancel(func, arg) must match both);
// at most one pending event per (handler, group).
struct Group { int ids[3] = {-1, -1, -1}; };

struct Case {
    EventScheduler *sched = nullptr;
    std::deque<Ev> evs;            // stable addresses
    std::deque<Group> groups;      // stable addresses (event args)
    std::vector<int> log;          // ids in firing order (whole history)
    std::vector<int> batch;        // ids fired by the current drain
    long handlerCancels = 0, children = 0;
};
Case *Cur = nullptr;

void onFire(int func, void *arg);
void h0(void *a) { onFire(0, a); }
void h1(void *a) { onFire(1, a); }
void h2(void *a) { onFire(2, a); }
EVH *const Handlers[3] = {h0, h1, h2};

int scheduleEv(Case &c, int func, double when, int weight, int chain, double cwhen, int cancelOnFire) {
    c.evs.emplace_back();
    Ev &e = c.evs.back();
    e.id = (int)c.evs.size() - 1; e.func = func; e.when = when; e.weight = weight;
    // every other event tries to share the argument object of its predecessor (different handler, none pending there)
    int g = -1;
    if (e.id > 0 && (e.id & 1)) {
        const int pg = c.evs[e.id - 1].slot;
        const int prev = c.groups[pg].ids[func];
        if (c.evs[e.id - 1].func != func && (prev < 0 || c.evs[prev].fired || c.evs[prev].cancelled)) g = pg;
    }
    if (g < 0) { c.groups.emplace_back(); g = (int)c.groups.size() - 1; }
    e.slot = g;
    c.groups[g].ids[func] = e.id;
    e.schedTime = current_dtime;
    e.strictDue = when > 0 ? current_dtime + when : current_dtime;
    e.codeKey = when > 0 ? current_dtime + when : 0;
    e.chain = chain; e.cwhen = cwhen; e.cancelOnFire = cancelOnFire;
    c.sched->schedule("verif", Handlers[func], &c.groups[g], when, weight, false);
    return e.id;
}

void onFire(int func, void *arg) {
    Case &c = *Cur;
    const int id = static_cast<Group *>(arg)->ids[func];
    Ev &e = c.evs[id];
    ++e.fired; e.firedAt = current_dtime;
    c.log.push_back(id); c.batch.push_back(id);
    if (e.chain) { scheduleEv(c, (e.func + 1) % 3, e.cwhen, e.chain == 2 ? 1 : 0, 0, 0, -1); ++c.children; }
    if (e.cancelOnFire >= 0) {
        // cancel the n-th event that is still queued (find() tells; an event already dequeued for this batch is not)
        std::vector<int> queued;
        for (auto &x : c.evs) if (!x.cancelled && !x.fired && c.sched->find(Handlers[x.func], &c.groups[x.slot])) queued.push_back(x.id);
        if (!queued.empty()) {
            Ev &t = c.evs[queued[e.cancelOnFire % queued.size()]];
            c.sched->cancel(Handlers[t.func], &c.groups[t.slot]);
            t.cancelled = true; ++c.handlerCancels;
        }
    }
}

// history: "E <t0> | ops":  S func when weight chain cwhen cancelOnFire | X n (cancel n-th pending) | T delta | C | R | F n
struct Op { char code; int func = 0, weight = 0, chain = 0, cof = -1, n = 0; double when = 0, cwhen = 0, delta = 0; };

bool decode(const std::string &w, double &t0, std::vector<Op> &ops) {
    std::istringstream is(w);
    std::string t;
    if (!(is >> t) || t != "E" || !(is >> t0) || !(t0 >= 0) || t0 > 1e12) return false;
    while (is >> t) {
        if (t.size() != 1) return false;
        Op o; o.code = t[0];
        switch (o.code) {
        case 'S': if (!(is >> o.func >> o.when >> o.weight >> o.chain >> o.cwhen >> o.cof)) return false;
            if (o.func < 0 || o.func > 2 || o.chain < 0 || o.chain > 2 || !std::isfinite(o.when) || !std::isfinite(o.cwhen) || std::fabs(o.when) > 1e10 || std::fabs(o.cwhen) > 1e10 || o.cof < -1) return false;
            break;
        case 'X': case 'F': if (!(is >> o.n) || o.n < 0) return false; break;
        case 'T': if (!(is >> o.delta) || !(o.delta >= 0) || o.delta > 1e10) return false; break;
        case 'C': case 'R': break;
        default: return false;
        }
        ops.push_back(o);
    }
    return ops.size() <= 2000;
}

std::string dbl(double v) { char b[40]; snprintf(b, sizeof b, "%.17g", v); return b; }

void run(Ctx &ctx, const std::string &w) {
    double t0;
    std::vector<Op> ops;
    if (!decode(w, t0, ops)) return;
    const double savedTime = current_dtime;
    current_dtime = t0;
    Case c;
    Cur = &c;
    long nChecks = 0, nFired = 0, nCancel = 0, greyOrder = 0, ties = 0, heavyBreaks = 0, batchDiffers = 0, lateFires = 0, remainingOdd = 0, zeroWhen = 0;
    bool dead = false;
    std::string where;
    auto fail = [&](const std::string &key, const std::string &d) { ctx.violation(key, where + d); dead = true; };
    {
        EventScheduler sched;
        c.sched = &sched;

        auto pendingIds = [&]() { std::vector<int> p; for (auto &e : c.evs) if (!e.cancelled && !e.fired) p.push_back(e.id); return p; };
        auto lessBoth = [&](const Ev &a, const Ev &b, bool &settled) {
            // is a due strictly before b under both readings of "due time"? (settled=false if the readings disagree)
            const bool s = a.strictDue < b.strictDue || (a.strictDue == b.strictDue && a.id < b.id);
            const bool k = a.codeKey < b.codeKey || (a.codeKey == b.codeKey && a.id < b.id);
            settled = s == k;
            return s && k;
        };

        // one checkEvents() + drain, then judge the batch
        auto check = [&](bool final) {
            // expected batch under the documented timestamp rule (informational only)
            std::vector<int> exp;
            {
                std::vector<int> p = pendingIds();
                std::stable_sort(p.begin(), p.end(), [&](int a, int b) { return c.evs[a].codeKey < c.evs[b].codeKey; });
                for (int id : p) { if (c.evs[id].codeKey > current_dtime) break; exp.push_back(id); if (c.evs[id].weight) break; }
            }
            const std::vector<int> before = pendingIds();
            c.batch.clear();
            const int rem = sched.checkEvents(0);
            AsyncCallQueue::Instance().fire();
            ++nChecks;
            (void)final;
            // judge each fired event against everything that was pending when checkEvents() ran
            std::vector<int> stillPending = before;
            for (size_t k = 0; k < c.batch.size() && !dead; ++k) {
                Ev &e = c.evs[c.batch[k]];
                ++nFired;
                if (e.fired > 1) { fail("fire:twice", "event " + std::to_string(e.id) + " fired " + std::to_string(e.fired) + " times"); break; }
                if (std::find(before.begin(), before.end(), e.id) == before.end()) {
                    // scheduled by a handler during this very drain: cannot have been dialed by this checkEvents()
                    fail("fire:not-scheduled", "event " + std::to_string(e.id) + " fired in the batch during which it was scheduled"); break;
                }
                if (current_dtime < e.strictDue) { fail("fire:early", "event " + std::to_string(e.id) + " (scheduled at " + dbl(e.schedTime) + " with delay " + dbl(e.when) + ", due " + dbl(e.strictDue) + ") fired at " + dbl(current_dtime)); break; }
                if (current_dtime > e.strictDue) ++lateFires;
                if (e.weight && k + 1 < c.batch.size()) { /* events after a heavy one in the same batch: allowed by the statement, unusual for the code */ ++batchDiffers; }
                stillPending.erase(std::find(stillPending.begin(), stillPending.end(), e.id));
                for (int oid : stillPending) {
                    const Ev &o = c.evs[oid];
                    if (o.cancelled) continue; // cancelled by a handler in this drain
                    bool settled;
                    if (lessBoth(o, e, settled)) {
                        const bool tie = o.strictDue == e.strictDue;
                        fail(tie ? "order:tie-not-in-scheduling-order" : "order:later-event-fired-first",
                             "event " + std::to_string(e.id) + " (due " + dbl(e.strictDue) + ") fired while event " + std::to_string(o.id) + " (due " + dbl(o.strictDue) + ", scheduled earlier) was still pending");
                        break;
                    }
                    if (!settled) ++greyOrder; // a when<=0 event overtaking (documented zero-timestamp rule): not judged
                    else if (o.strictDue == e.strictDue) ++ties;
                }
            }
            if (dead) return;
            if (!c.batch.empty() && c.evs[c.batch.back()].weight) { bool more = false; for (int id : pendingIds()) if (c.evs[id].codeKey <= current_dtime && std::find(before.begin(), before.end(), id) != before.end()) more = true; if (more) ++heavyBreaks; }
            if (c.batch != exp) ++batchDiffers;
            // return value: informational (the statement does not cover it)
            // (judged against the queue as it was when checkEvents() returned, i.e. before handlers ran)
            if (c.batch == exp && (before.size() == exp.size()) != (rem == AsyncEngine::EVENT_IDLE)) ++remainingOdd;
        };

        for (size_t n = 0; n < ops.size() && !dead; ++n) {
            const Op &o = ops[n];
            where = "step " + std::to_string(n) + " '" + std::string(1, o.code) + "' at time " + dbl(current_dtime) + ": ";
            switch (o.code) {
            case 'S': scheduleEv(c, o.func, o.when, o.weight ? 1 : 0, o.chain, o.cwhen, o.cof); if (o.when <= 0) ++zeroWhen; break;
            case 'X': {
                const std::vector<int> p = pendingIds();
                if (p.empty()) break; // contract: only existing events are cancelled
                Ev &t = c.evs[p[o.n % p.size()]];
                if (!sched.find(Handlers[t.func], &c.groups[t.slot])) { fail("lost:not-scheduled", "event " + std::to_string(t.id) + " was neither fired nor cancelled but is not in the queue"); break; }
                sched.cancel(Handlers[t.func], &c.groups[t.slot]);
                t.cancelled = true; ++nCancel;
                // cancelling one event leaves all others scheduled
                for (int id : pendingIds()) if (!sched.find(Handlers[c.evs[id].func], &c.groups[c.evs[id].slot])) { fail("cancel:lost-bystander", "after cancelling event " + std::to_string(t.id) + " event " + std::to_string(id) + " is no longer scheduled"); break; }
                if (!dead && sched.find(Handlers[t.func], &c.groups[t.slot])) fail("cancel:still-scheduled", "cancelled event " + std::to_string(t.id) + " is still found in the queue");
                break; }
            case 'F': {
                const std::vector<int> p = pendingIds();
                if (p.empty()) break;
                Ev &t = c.evs[p[o.n % p.size()]];
                if (!sched.find(Handlers[t.func], &c.groups[t.slot])) fail("find:pending-not-found", "pending event " + std::to_string(t.id) + " is not found");
                for (auto &e : c.evs) if ((e.fired || e.cancelled) && sched.find(Handlers[e.func], &c.groups[e.slot])) { fail("find:stale", "fired/cancelled event " + std::to_string(e.id) + " is still found in the queue"); break; }
                break; }
            case 'T': current_dtime += o.delta; break;
            case 'R': {
                const int rem = sched.timeRemaining();
                const std::vector<int> p = pendingIds();
                double head = 0; bool any = false;
                for (int id : p) if (!any || c.evs[id].codeKey < head) { head = c.evs[id].codeKey; any = true; }
                if (!any) { if (rem != AsyncEngine::EVENT_IDLE) ++remainingOdd; }
                else if (head <= current_dtime) { if (rem != 0) ++remainingOdd; }
                else if (rem <= 0 || (1000.0 * (head - current_dtime) <= 2e9 && rem < 1000.0 * (head - current_dtime) - 1e-6)) ++remainingOdd; // would come back early
                break; }
            case 'C': check(false); break;
            }
            if (!dead) for (auto &e : c.evs) if (e.cancelled && e.fired) { fail("cancel:fired-after-cancel", "event " + std::to_string(e.id) + " fired although it had been cancelled"); break; }
        }
        // end of history: everything that was not cancelled must still be scheduled and fire exactly once
        if (!dead) {
            where = "final drain: ";
            for (int id : pendingIds()) if (!sched.find(Handlers[c.evs[id].func], &c.groups[c.evs[id].slot])) { fail("lost:not-scheduled", "event " + std::to_string(id) + " was neither fired nor cancelled but is not in the queue"); break; }
            for (int round = 0; round < 4000 && !dead && !pendingIds().empty(); ++round) {
                double latest = current_dtime;
                for (int id : pendingIds()) latest = std::max(latest, c.evs[id].strictDue);
                current_dtime = latest; // not beyond: the last events fire exactly at their due time
                check(true);
            }
            if (!dead) for (int id : pendingIds()) { fail("lost:never-fired", "event " + std::to_string(id) + " (due " + dbl(c.evs[id].strictDue) + ") never fired although the clock reached " + dbl(current_dtime)); break; }
            if (!dead) for (auto &e : c.evs) if (e.cancelled && e.fired) { fail("cancel:fired-after-cancel", "event " + std::to_string(e.id) + " fired although it had been cancelled"); break; }
            if (!dead) for (auto &e : c.evs) if (!e.cancelled && e.fired != 1) { fail("fire:count", "event " + std::to_string(e.id) + " fired " + std::to_string(e.fired) + " times"); break; }
        }
        if (dead) { c.sched->clean(); AsyncCallQueue::Instance().fire(); }
        c.sched = nullptr;
    }
    AsyncCallQueue::Instance().fire();
    Cur = nullptr;
    current_dtime = savedTime;
    ctx.ubsanGate({}); // UB kinds are not covered by this statement: reports become notes
    auto b = [](long v) { return v == 0 ? "0" : v < 4 ? "1" : v < 16 ? "2" : "3"; };
    ctx.feature(std::string("e") + b((long)c.evs.size()) + " x" + b(nCancel) + " hx" + b(c.handlerCancels) + " ch" + b(c.children) + " t" + b(ties) + " g" + b(greyOrder) + " hb" + b(heavyBreaks) + " l" + b(lateFires) + " z" + b(zeroWhen) + " c" + b(nChecks), !c.evs.empty());
    ctx.count("events_scheduled", (long)c.evs.size()); ctx.count("events_fired", nFired); ctx.count("cancels", nCancel + c.handlerCancels);
    ctx.count("checkEvents_calls", nChecks); ctx.count("equal_due_pairs_checked", ties); ctx.count("zero_delay_overtakes_not_judged", greyOrder);
    ctx.count("heavy_event_ended_batch_with_due_events_left", heavyBreaks); ctx.count("batches_differing_from_timestamp_rule_model", batchDiffers);
    ctx.count("timeRemaining_unexpected_informational", remainingOdd); ctx.count("fired_late", lateFires);
}

std::string gen(Rng &r) {
    static const double starts[] = {0, 1, 1000.5, 1700000000.25, 1e9};
    std::string s = "E " + dbl(starts[r.below(5)]);
    // a small palette of delays so that equal due times are common
    std::vector<double> pal;
    const int np = 2 + (int)r.below(4);
    for (int i = 0; i < np; ++i) {
        switch (r.below(9)) { case 0: pal.push_back(0); break; case 1: pal.push_back(-1); break; case 2: pal.push_back(1e-9); break; case 3: pal.push_back(0.001); break; case 4: pal.push_back(1); break; case 5: pal.push_back(2); break;
        case 6: pal.push_back((double)r.below(10) / 4); break; case 7: pal.push_back(r.chance(1, 4) ? 3e6 : 1e5); break; default: pal.push_back((double)r.below(5000) / 1000); }
    }
    const int nops = 4 + (int)r.below(r.chance(1, 4) ? 150 : 50);
    for (int n = 0; n < nops; ++n) {
        const unsigned k = (unsigned)r.below(20);
        if (k < 9) {
            const double when = pal[r.below(pal.size())];
            const int chain = r.chance(1, 8) ? 1 + (int)r.below(2) : 0;
            s += " S " + std::to_string(r.below(3)) + " " + dbl(when) + " " + std::to_string(r.chance(1, 5) ? 1 : 0) + " " + std::to_string(chain) + " " + dbl(chain ? pal[r.below(pal.size())] : 0) + " " + std::to_string(r.chance(1, 12) ? (int)r.below(6) : -1);
        } else if (k < 11) s += " X " + std::to_string(r.below(12));
        else if (k < 15) { const double d = r.chance(1, 3) ? pal[r.below(pal.size())] : r.chance(1, 2) ? (double)r.below(3000) / 1000 : r.chance(1, 2) ? 0 : 1; s += " T " + dbl(d < 0 ? 0 : d); }
        else if (k < 18) s += " C";
        else if (k == 18) s += " R";
        else s += " F " + std::to_string(r.below(12));
    }
    return s;
}

int drive(Ctx &ctx) { return vh::Loop(ctx, gen, run); }

} // namespace

VH_REGISTER(C59, drive, "EventScheduler schedule/cancel/advance histories: fired log vs due-time/order/cancel rules");
