// C42 IP-address ACLs match exactly the configured address sets.
// Differential oracle: the real ACLIP::parse() (acl_ip_data::FactoryParse + Acl::SplayInserter<acl_ip_data*>::Merge,
// fed through ConfigParser, one or several parse() calls) and ACLIP::match(Ip::Address) (splay lookup with
// aclIpAddrNetworkCompare) against a set model over 128-bit integers: an address matches iff it belongs
// to the union of the listed single addresses / CIDR networks / ranges, or its family is named by
// all / ipv4 / ipv6.
#include "squid.h"
#include "vh.h"
#include "acl/SourceIp.h"
#include "ConfigParser.h"
#include "debug/Stream.h"
#include "ip/Address.h"
#include "ip/tools.h"

#include <algorithm>
#include <arpa/inet.h>

using vh::Ctx;
using vh::Rng;

namespace {

typedef unsigned __int128 u128;

const u128 V4Base = ((u128)0xffff) << 32;            // ::ffff:0.0.0.0
const u128 V4Top = V4Base | 0xffffffffu;             // ::ffff:255.255.255.255
const u128 Max128 = ~(u128)0;

struct VIP : ACLSourceIP { int m(const Ip::Address &a) { return ACLIP::match(a); } };

struct Addr { bool v6; u128 v; }; // v4 addresses are kept as their 32-bit value in v

// text -------------------------------------------------------------------
std::string fmt4(uint32_t a) {
    return std::to_string(a >> 24) + "." + std::to_string((a >> 16) & 255) + "." + std::to_string((a >> 8) & 255) + "." + std::to_string(a & 255);
}
// style 0: eight groups; 1: longest zero run compressed; 2: as 1 in upper case
std::string fmt6(u128 a, int style) {
    unsigned g[8];
    for (int i = 0; i < 8; ++i) g[i] = (unsigned)(a >> (112 - 16 * i)) & 0xffff;
    int bs = -1, bl = 0;
    if (style) for (int i = 0; i < 8;) { if (g[i]) { ++i; continue; } int j = i; while (j < 8 && !g[j]) ++j; if (j - i > bl) { bl = j - i; bs = i; } i = j; }
    if (bl < 2) bs = -1;
    std::string s;
    char b[8];
    for (int i = 0; i < 8; ++i) {
        if (i == bs) { s += "::"; i += bl - 1; continue; }
        if (!s.empty() && s.back() != ':') s += ":";
        snprintf(b, sizeof b, style == 2 ? "%X" : "%x", g[i]);
        s += b;
    }
    return s;
}
std::string fmtAddr(const Addr &a, int style = 1) { return a.v6 ? fmt6(a.v, style) : fmt4((uint32_t)a.v); }

bool parse4(const std::string &s, uint32_t &out) {
    unsigned o[4]; int n = 0; size_t i = 0;
    while (n < 4) {
        if (i >= s.size() || !isdigit((unsigned char)s[i])) return false;
        size_t j = i; unsigned v = 0;
        while (j < s.size() && isdigit((unsigned char)s[j]) && j - i < 4) { v = v * 10 + (s[j] - '0'); ++j; }
        if (j - i > 3 || v > 255 || (j - i > 1 && s[i] == '0')) return false;
        o[n++] = v; i = j;
        if (n < 4) { if (i >= s.size() || s[i] != '.') return false; ++i; }
    }
    if (i != s.size()) return false;
    out = o[0] << 24 | o[1] << 16 | o[2] << 8 | o[3];
    return true;
}
bool parse6(const std::string &s, u128 &out) {
    if (s.empty() || s.size() > 45 || s.find('.') != std::string::npos) return false;
    for (unsigned char ch : s) if (!isxdigit(ch) && ch != ':') return false;
    unsigned char b[16];
    if (inet_pton(AF_INET6, s.c_str(), b) != 1) return false;
    out = 0;
    for (int i = 0; i < 16; ++i) out = out << 8 | b[i];
    return true;
}
bool parseAddr(const std::string &s, Addr &a) {
    uint32_t v4;
    if (parse4(s, v4)) { a = {false, v4}; return true; }
    u128 v6;
    if (parse6(s, v6)) { a = {true, v6}; return true; }
    return false;
}

// reference reading of one configured value ----------------------------------
struct Val { enum { All, V4, V6, Set, Grey } kind; bool v6; u128 lo, hi; int syntax; };

Val refValue(const std::string &t) {
    Val g{Val::Grey, false, 0, 0, 0};
    if (t == "all") return {Val::All, false, 0, 0, 0};
    if (t == "ipv4") return {Val::V4, false, 0, 0, 0};
    if (t == "ipv6") return {Val::V6, false, 0, 0, 0};
    std::string a1 = t, a2, m;
    const auto sl = a1.find('/');
    if (sl != std::string::npos) { m = a1.substr(sl + 1); a1 = a1.substr(0, sl); if (m.empty()) return g; }
    const auto da = a1.find('-');
    if (da != std::string::npos) { a2 = a1.substr(da + 1); a1 = a1.substr(0, da); if (a2.empty()) return g; }
    Addr x, y;
    if (!parseAddr(a1, x)) return g;
    y = x;
    if (!a2.empty() && (!parseAddr(a2, y) || y.v6 != x.v6)) return g;
    const int width = x.v6 ? 128 : 32;
    int len = width;
    int syntax = (a2.empty() ? 0 : 1) | (m.empty() ? 0 : 2);
    if (!m.empty()) {
        uint32_t nm;
        if (m.find_first_not_of("0123456789") == std::string::npos && m.size() <= 3) len = atoi(m.c_str());
        else if (!x.v6 && parse4(m, nm)) { // dotted netmask: contiguous ones only
            len = 0; uint32_t k = nm; while (k & 0x80000000u) { ++len; k <<= 1; }
            if (k) return g;
            syntax |= 4;
        } else return g;
        if (len > width) return g;
        if (len == 0) return g; // "/0": squid rewrites some spellings to 'all' (documented); not judged
    }
    const u128 full = x.v6 ? Max128 : (u128)0xffffffffu;
    const u128 hostBits = len == width ? 0 : (full >> len);
    if ((x.v & hostBits) || (y.v & hostBits)) return g; // host bits below the mask: excluded by the statement
    if (y.v < x.v) return g;                              // reversed range: not a range
    Val v{Val::Set, x.v6, x.v, y.v | hostBits, syntax};
    if (x.v6 && v.lo <= V4Top && v.hi >= V4Base) return g; // IPv6 set covering the v4-mapped block: family membership of IPv4 addresses not settled
    return v;
}

bool refMatch(const std::vector<Val> &vals, const Addr &p) {
    for (const auto &v : vals) {
        if (v.kind == Val::All) return true;
        if (v.kind == Val::V4 && !p.v6) return true;
        if (v.kind == Val::V6 && p.v6) return true;
        if (v.kind == Val::Set && v.v6 == p.v6 && v.lo <= p.v && p.v <= v.hi) return true;
    }
    return false;
}

// case encoding: line 1 = probes ("@XY" = every address of the named small scopes, their outer
// neighbours and the global specials; otherwise space separated addresses); further lines = one
// configuration line per parse() call ------------------------------------------------
struct Scope { char id; bool v6; u128 base; int bits; };
const Scope Scopes[] = {
    {'A', false, 0x0a010210u, 4},                         // 10.1.2.16/28
    {'a', false, 0x0a010210u, 3},
    {'B', false, 0, 3},                                   // 0.0.0.0/29 (contains the IPv4 "any" address)
    {'C', false, 0xfffffff8u, 3},                         // 255.255.255.248/29 (contains the IPv4 "no" address)
    {'D', true, ((u128)0x20010db8u << 96) | 0x10, 4},     // 2001:db8::10/124
    {'d', true, ((u128)0x20010db8u << 96) | 0x10, 3},
    {'E', true, 0, 3},                                    // ::/125 (contains :: and ::1)
    {'F', true, Max128 - 7, 3},                           // ffff:...:fff8/125
};
const Scope *scopeById(char id) { for (const auto &s : Scopes) if (s.id == id) return &s; return nullptr; }

std::vector<Addr> specials() {
    return {{false, 0}, {false, 0xffffffffu}, {false, 0x0a010214u}, {false, 0x7f000001u}, {true, 0}, {true, 1}, {true, Max128},
            {true, ((u128)0x20010db8u << 96) | 0x15}, {true, (u128)1 << 127}, {false, 0x80000000u}};
}

struct Case { std::vector<Addr> probes; std::vector<std::string> lines; };

std::vector<std::string> split(const std::string &s, const char *seps) {
    std::vector<std::string> r;
    size_t i = 0;
    while (i < s.size()) {
        size_t j = s.find_first_of(seps, i);
        if (j == std::string::npos) j = s.size();
        if (j > i) r.push_back(s.substr(i, j - i));
        i = j + 1;
    }
    return r;
}

bool dec(const std::string &w, Case &c) {
    const auto nl = w.find('\n');
    if (nl == std::string::npos) return false;
    const std::string head = w.substr(0, nl);
    if (!head.empty() && head[0] == '@') {
        for (size_t i = 1; i < head.size(); ++i) {
            const Scope *s = scopeById(head[i]);
            if (!s) return false;
            const u128 n = (u128)1 << s->bits, top = s->v6 ? Max128 : (u128)0xffffffffu;
            if (s->base > 0) c.probes.push_back({s->v6, s->base - 1});
            for (u128 k = 0; k < n; ++k) c.probes.push_back({s->v6, s->base + k});
            if (s->base + (n - 1) < top) c.probes.push_back({s->v6, s->base + n});
        }
        for (const auto &a : specials()) c.probes.push_back(a);
    } else {
        for (const auto &t : split(head, " ")) { Addr a; if (!parseAddr(t, a)) return false; c.probes.push_back(a); }
    }
    size_t i = nl + 1;
    while (i <= w.size()) {
        auto j = w.find('\n', i);
        if (j == std::string::npos) j = w.size();
        c.lines.push_back(w.substr(i, j - i));
        i = j + 1;
    }
    return true;
}

// value spelling ------------------------------------------------------------------------
// [lo,hi] as a token; `variant` picks among the equivalent spellings
std::string spell(bool v6, u128 lo, u128 hi, unsigned variant) {
    const int width = v6 ? 128 : 32;
    const int st = (int)(variant % 3);
    auto A = [&](u128 v) { return v6 ? fmt6(v, st) : fmt4((uint32_t)v); };
    if (lo == hi) return (variant & 4) ? A(lo) + "/" + std::to_string(width) : A(lo);
    // aligned power-of-two block?
    const u128 size1 = hi - lo; // size-1
    if ((size1 & (size1 + 1)) == 0 && (lo & size1) == 0 && size1 != (v6 ? Max128 : (u128)0xffffffffu)) {
        int host = 0; while (((u128)1 << host) <= size1 && host < width) ++host;
        const int len = width - host;
        switch ((variant >> 3) % 4) {
        case 0: case 1: return A(lo) + "/" + std::to_string(len);
        case 2: if (!v6) return A(lo) + "/" + fmt4((uint32_t)(0xffffffffu << host)); return A(lo) + "/" + std::to_string(len);
        default: break; // as a plain range
        }
    }
    // range; if both ends allow, as range of subnets "a-b/len"
    if ((variant >> 5) % 3 == 0) {
        int host = 0;
        while (host < 12 && host < width - 1 && !((lo >> host) & 1) && ((hi >> host) & 1)) ++host;
        if (host > 0) {
            const u128 hb = ((u128)1 << host) - 1;
            return A(lo) + "-" + A(hi & ~hb) + "/" + std::to_string(width - host);
        }
    }
    return A(lo) + "-" + A(hi);
}

std::string enc(const std::string &probes, const std::vector<std::string> &lines) {
    std::string w = probes;
    for (const auto &l : lines) { w += "\n"; w += l; }
    return w;
}

// random generator ----------------------------------------------------------------------
struct Hood { bool v6; u128 base; };

Hood genHood(Rng &r) {
    if (r.coin()) {
        static const uint32_t b4[] = {0x0a000000u, 0xc0a80000u, 0x7f000000u, 0, 0xffffff00u, 0xe0000000u, 0x80000000u, 0x7fffff00u, 0x01ffff00u, 0x0a00ff00u, 0x00ffff00u, 0xac100000u, 0xfffffff0u};
        uint32_t b = b4[r.below(sizeof b4 / sizeof *b4)];
        if (r.chance(1, 5)) b = (uint32_t)r.next() & 0xffffff00u;
        return {false, b};
    }
    static const u128 b6[] = {(u128)0x20010db8u << 96, (u128)0xfe80u << 112, 0, (u128)1 << 64, (u128)0xff00u << 112, Max128 - 0xff, (u128)1 << 127, ((u128)1 << 127) - 0x100,
                              ((u128)0x20010db8u << 96) | ((u128)0xffffffffffffff00ULL), (u128)0xfffe00000000ULL, (u128)1 << 48, ((u128)0x20010db8u << 96) | 0xff00};
    u128 b = b6[r.below(sizeof b6 / sizeof *b6)];
    if (r.chance(1, 6)) b = (((u128)r.next() << 64) | r.next()) & ~(u128)0xff;
    if (b <= V4Top && b + 0x2000 >= V4Base) b = (u128)0x20010db8u << 96;
    return {true, b};
}

std::string gen(Rng &r) {
    std::vector<Hood> hoods;
    const size_t nh = 1 + r.below(3);
    for (size_t i = 0; i < nh; ++i) hoods.push_back(genHood(r));
    std::vector<std::string> toks;
    std::vector<Addr> anchors;
    const size_t n = r.chance(1, 40) ? 0 : 1 + r.below(r.chance(1, 5) ? 20 : 7);
    for (size_t i = 0; i < n; ++i) {
        if (r.chance(1, 25)) { toks.push_back(r.pick({"all", "ipv4", "ipv6"})); continue; }
        if (!toks.empty() && r.chance(1, 10)) { toks.push_back(r.pick(toks)); continue; }
        const Hood &h = hoods[r.below(nh)];
        const int width = h.v6 ? 128 : 32;
        const u128 top = h.v6 ? Max128 : (u128)0xffffffffu;
        u128 lo, hi;
        const u128 span = r.chance(1, 4) ? 0x1000 : (r.chance(1, 2) ? 0x200 : 0x20);
        u128 p = h.base + r.below((uint64_t)span);
        if (p > top || p < h.base) p = top - r.below(16);
        switch (r.below(6)) {
        case 0: lo = hi = p; break;
        case 1: case 2: { // CIDR block containing p
            int host = (int)r.below(r.chance(1, 5) ? (uint64_t)width - 1 : 12) + 1; // 1..width-1
            if (host >= width) host = width - 1;
            const u128 hb = ((u128)1 << host) - 1;
            lo = p & ~hb; hi = p | hb; break; }
        default: { // range
            u128 q = r.chance(1, 6) ? p : p + r.below(r.chance(1, 3) ? 0x600 : 0x30);
            if (q > top || q < p) q = top;
            lo = p; hi = q; break; }
        }
        if (h.v6 && lo <= V4Top && hi >= V4Base) { lo = hi = ((u128)0x20010db8u << 96) | 1; }
        anchors.push_back({h.v6, lo}); anchors.push_back({h.v6, hi});
        toks.push_back(spell(h.v6, lo, hi, (unsigned)r.next()));
    }
    if (r.chance(1, 150) && !toks.empty()) toks[r.below(toks.size())] = r.pick({"10.0.0.1/24", "0.0.0.0/0", "::/0", "10.0.0.9-10.0.0.1", "10.0.0.1-10.0.0.255/24", "::1/64"}); // out of scope -> grey
    const size_t nl = 1 + (r.chance(1, 3) ? r.below(3) : 0);
    std::vector<std::string> lines(nl);
    for (auto &t : toks) { std::string &l = lines[r.below(nl)]; if (!l.empty()) l += r.chance(1, 8) ? "\t" : " "; l += t; }

    std::vector<Addr> ps;
    auto add = [&](bool v6, u128 v) { if (v6 && v >= V4Base && v <= V4Top) return; ps.push_back({v6, v}); };
    for (const auto &a : anchors) {
        const u128 top = a.v6 ? Max128 : (u128)0xffffffffu;
        add(a.v6, a.v);
        if (a.v > 0) add(a.v6, a.v - 1);
        if (a.v < top) add(a.v6, a.v + 1);
        if (r.chance(1, 3)) { u128 d = (u128)1 << (8 * (1 + r.below(a.v6 ? 15 : 3))); if (a.v + d > a.v && a.v + d <= top) add(a.v6, a.v + d); if (a.v >= d) add(a.v6, a.v - d); } // same low bytes, other high byte
    }
    for (const auto &h : hoods) for (int i = 0; i < 3; ++i) { u128 v = h.base + r.below(0x1200); if (v <= (h.v6 ? Max128 : (u128)0xffffffffu) && v >= h.base) add(h.v6, v); }
    for (const auto &s : specials()) if (r.chance(1, 3)) add(s.v6, s.v);
    if (ps.empty()) add(false, 0x0a000001u);
    std::string probes;
    std::set<std::string> seen;
    for (const auto &p : ps) { const std::string t = fmtAddr(p); if (!seen.insert(t).second) continue; if (!probes.empty()) probes += " "; probes += t; }
    return enc(probes, lines);
}

Ip::Address toSquid(const Addr &a) {
    if (!a.v6) { struct in_addr i; i.s_addr = htonl((uint32_t)a.v); return Ip::Address(i); }
    struct in6_addr i6;
    for (int k = 0; k < 16; ++k) i6.s6_addr[k] = (uint8_t)(a.v >> (120 - 8 * k));
    return Ip::Address(i6);
}

void run(Ctx &ctx, const std::string &w) {
    Case c;
    if (!dec(w, c)) return;
    std::vector<Val> vals;
    for (const auto &l : c.lines) {
        if (l.size() > 8000) { ctx.grey(); return; }
        for (const auto &t : split(l, " \t")) {
            const Val v = refValue(t);
            if (v.kind == Val::Grey) { ctx.grey(); return; } // outside the statement (host bits, /0, reversed, non-literal ...): squid may terminate or never match
            vals.push_back(v);
        }
    }

    VIP acl;
    for (const auto &l : c.lines) {
        char *line = xstrdup(l.c_str());
        ConfigParser::SetCfgLine(line);
        acl.parse();
        ConfigParser::SetCfgLine(nullptr);
        xfree(line);
    }

    long matched = 0, judged = 0;
    bool fam4 = false, fam6 = false, tok = false;
    for (const auto &v : vals) { if (v.kind == Val::Set) (v.v6 ? fam6 : fam4) = true; else tok = true; }
    // violation keys are coarse and describe the case, not the input: kind, class of the probed address, and
    // which "unusual" ingredients the list has (IPv4 0.0.0.0, IPv6 values/ranges numerically below ::ffff:0:0)
    bool listAny4 = false, v6Low = false, v6Range = false, v6LowRange = false;
    for (const auto &v : vals) {
        if (v.kind != Val::Set) continue;
        if (!v.v6) { if (v.lo == 0 && v.hi == 0) listAny4 = true; continue; }
        if (v.lo < V4Base) v6Low = true;
        if (v.syntax & 1) { v6Range = true; if (v.lo < V4Base) v6LowRange = true; }
    }
    const std::string famKey = fam4 && fam6 ? "mixed-list" : fam6 ? "v6-list" : fam4 ? "v4-list" : "family-tokens-only";
    auto probeClass = [](const Addr &p) -> std::string {
        if (!p.v6) return p.v == 0 ? "probe-0.0.0.0" : p.v == 0xffffffffu ? "probe-255.255.255.255" : "probe-v4";
        return p.v == 0 ? "probe-v6-any" : p.v == Max128 ? "probe-v6-ones" : p.v < V4Base ? "probe-v6-below-mapped" : "probe-v6";
    };
    auto keyOf = [&](const Addr &p, bool exp) -> std::string {
        if (exp) {
            if (listAny4 && v6Low) return "ip:missed:list-has-0.0.0.0-and-v6-below-mapped";
            return "ip:missed:" + probeClass(p) + ":" + famKey;
        }
        if (!p.v6 && p.v == 0xffffffffu && v6Range) return "ip:false-match:probe-255.255.255.255:list-has-v6-range";
        if (!p.v6 && v6LowRange) return "ip:false-match:probe-v4:list-has-v6-range-below-mapped";
        return "ip:false-match:" + probeClass(p) + ":" + famKey;
    };
    for (int pass = 0; pass < 2; ++pass) { // second pass in reverse order: lookups reshape the splay tree
        for (size_t k = 0; k < c.probes.size(); ++k) {
            const Addr &p = c.probes[pass ? c.probes.size() - 1 - k : k];
            if (p.v6 && p.v >= V4Base && p.v <= V4Top) continue;
            const bool exp = refMatch(vals, p);
            const bool got = acl.m(toSquid(p)) != 0;
            ++judged;
            if (got) ++matched;
            if (got != exp)
                ctx.violation(keyOf(p, exp),
                              "match(" + fmtAddr(p) + ") returned " + (got ? "true" : "false") + " but the address " + (exp ? "belongs" : "does not belong") + " to the union of the listed sets" + (pass ? " (second lookup)" : ""));
        }
    }
    ctx.count("matches_compared", judged);
    if (acl.empty() != vals.empty()) ctx.violation("ip:empty", "empty() disagrees with the number of configured values");

    if (vals.empty()) { ctx.feature("empty", false); return; }
    // feature: structure of the list
    std::vector<Val> s;
    unsigned syn = 0, toks = 0;
    bool anyEnd = false, noEnd = false;
    for (const auto &v : vals) {
        if (v.kind != Val::Set) { toks |= 1u << (int)v.kind; continue; }
        Val x = v; if (!x.v6) { x.lo += V4Base; x.hi += V4Base; }
        s.push_back(x); syn |= 1u << v.syntax;
        if (v.lo == 0) anyEnd = true;
        if (v.hi == (v.v6 ? Max128 : (u128)0xffffffffu)) noEnd = true;
    }
    std::sort(s.begin(), s.end(), [](const Val &a, const Val &b) { return a.lo < b.lo || (a.lo == b.lo && a.hi < b.hi); });
    int merged = s.empty() ? 0 : 1, dup = 0, overlap = 0, adjacent = 0, nested = 0;
    u128 curHi = s.empty() ? 0 : s[0].hi;
    for (size_t i = 1; i < s.size(); ++i) {
        if (s[i].lo == s[i - 1].lo && s[i].hi == s[i - 1].hi) ++dup;
        else if (s[i].lo <= curHi && s[i].hi <= curHi) ++nested;
        else if (s[i].lo <= curHi) ++overlap;
        else if (s[i].lo == curHi + 1) ++adjacent;
        if (curHi != Max128 && s[i].lo > curHi + 1) ++merged;
        curHi = std::max(curHi, s[i].hi);
    }
    auto b = [](long v) { return v == 0 ? 0 : v == 1 ? 1 : v < 4 ? 2 : v < 8 ? 3 : 4; };
    const std::string feat = "n" + std::to_string(b((long)vals.size())) + (fam4 ? "4" : "") + (fam6 ? "6" : "") + "t" + std::to_string(toks) + "m" + std::to_string(b(merged)) +
                             "d" + std::to_string(b(dup)) + "o" + std::to_string(b(overlap)) + "a" + std::to_string(b(adjacent)) + "n" + std::to_string(b(nested)) +
                             "s" + std::to_string(syn) + (anyEnd ? "z" : "") + (noEnd ? "f" : "") + "l" + std::to_string(c.lines.size()) + "h" + std::to_string(b(matched)) + "u" + std::to_string(b(judged - matched));
    ctx.feature(feat);
}

// exhaustive small scopes -----------------------------------------------------------------
// every value over the scope: single addresses, aligned CIDR blocks, ranges lo<hi (as [lo,hi] pairs)
struct SV { bool v6; u128 lo, hi; const char *tok; };

std::vector<SV> scopeValues(const Scope &s, bool reduced) {
    std::vector<SV> r;
    const u128 n = (u128)1 << s.bits;
    if (reduced) { // for cross-scope lists: first, second, last address, the whole block, two ranges
        for (u128 k : {(u128)0, (u128)1, n - 1}) r.push_back({s.v6, s.base + k, s.base + k, nullptr});
        r.push_back({s.v6, s.base, s.base + n - 1, nullptr});
        r.push_back({s.v6, s.base, s.base + 1, nullptr});
        r.push_back({s.v6, s.base + 1, s.base + n - 1, nullptr});
        return r;
    }
    for (u128 a = 0; a < n; ++a) for (u128 b = a; b < n; ++b) r.push_back({s.v6, s.base + a, s.base + b, nullptr});
    return r;
}

void exhaustive(Ctx &ctx, const std::string &scopeIds, int len, bool reduced, const char *counter) {
    std::vector<SV> vals;
    for (char id : scopeIds) { const auto v = scopeValues(*scopeById(id), reduced); vals.insert(vals.end(), v.begin(), v.end()); }
    for (const char *t : {"all", "ipv4", "ipv6"}) vals.push_back({false, 0, 0, t});
    const long V = (long)vals.size();
    long total = 1;
    for (int i = 0; i < len; ++i) total *= V;
    const std::string head = "@" + scopeIds;
    long n = 0;
    for (long idx = ctx.shard; idx < total; idx += ctx.nshards) {
        long x = idx;
        const bool perLine = len > 1 && (idx / ctx.nshards) % 3 == 2;
        std::string body;
        unsigned variant = (unsigned)Ctx::mix(0x42, (uint64_t)idx);
        for (int i = 0; i < len; ++i) {
            const SV &v = vals[x % V]; x /= V;
            if (i) body += perLine ? "\n" : " ";
            body += v.tok ? std::string(v.tok) : spell(v.v6, v.lo, v.hi, variant);
            variant = variant * 2654435761u + 12345u;
        }
        const std::string w = head + "\n" + body;
        ctx.begin(w); run(ctx, w); ++n;
    }
    ctx.count(counter, n);
}

int drive(Ctx &ctx) {
    Ip::EnableIpv6 = IPV6_ON | IPV6_SPECIAL_V4MAPPING; // as Ip::ProbeTransport() sets it on an IPv6 capable host
    // FactoryParse()/Merge() report deprecated netmasks and redundant values at DBG_CRITICAL/IMPORTANT. The first
    // critical message constructs the debug module, which resets all section levels to 1 and then hoards
    // "early" messages (asserting at 1000 of them) until logging is settled: settle it and silence all levels.
    Debug::BanCacheLogUse();
    Debug::SettleStderr();
    Debug::SettleSyslog();
    for (auto &l : Debug::Levels) l = -1;
    if (!ctx.replaying) {
        for (const char *s : {"A", "D"}) exhaustive(ctx, s, 1, false, "exhaustive_4bit_len1");
        exhaustive(ctx, "A", 2, false, "exhaustive_4bit_len2");          // 139^2 lists
        exhaustive(ctx, "D", 2, false, "exhaustive_4bit_len2");
        for (const char *s : {"a", "B", "C", "d", "E", "F"}) exhaustive(ctx, s, 3, false, "exhaustive_3bit_len3"); // 39^3 lists each
        exhaustive(ctx, "aBCdEF", 2, true, "exhaustive_cross_len2");      // 39^2 lists over six scopes
        exhaustive(ctx, "aBCdEF", 3, true, "exhaustive_cross_len3");      // 39^3 lists over six scopes
        if (ctx.thorough) {
            exhaustive(ctx, "A", 3, false, "exhaustive_4bit_len3");      // 139^3 lists
            exhaustive(ctx, "D", 3, false, "exhaustive_4bit_len3");
        }
        ctx.exhaustive = true;
    }
    return vh::Loop(ctx, gen, run);
}

} // namespace

VH_REGISTER(C42, drive, "ACLIP parse/match vs 128-bit interval-union set model (exhaustive 3/4-bit scopes + random lists)");
