// C28 Range canonicalisation preserves the requested byte set.
// Differential oracle: HttpHdrRange::ParseCreate + HttpHdrRange::canonize(clen) against a byte-set
// (interval-union) model written from RFC 9110 section 14.1; UBSan reports in HttpHdrRange.cc gate.
#include "squid.h"
#include "vh.h"
#include "HttpHeaderRange.h"
#include "SquidString.h"

#include <algorithm>
#include <climits>

using vh::Ctx;
using vh::Rng;

namespace {

typedef unsigned __int128 u128;
typedef std::pair<u128, u128> Iv; // [first, second) non-empty

// case encoding: "<clen>\n<Range field value>"
std::string enc(int64_t clen, const std::string &v) { return std::to_string(clen) + "\n" + v; }

bool isOws(char c) { return c == ' ' || c == '\t'; }
bool isDig(char c) { return c >= '0' && c <= '9'; }

const u128 Huge = (u128)1 << 100;
u128 num(const std::string &s, size_t b, size_t e) {
    u128 v = 0;
    for (size_t i = b; i < e; ++i) { if (v < Huge) v = v * 10 + (u128)(s[i] - '0'); }
    return v;
}

struct Spec { int type; u128 a, b; }; // type 0: a-b   1: a-   2: -a

enum Kind { Valid, Invalid, Grey };

// a '-' sign was seen where a number is expected: "-0" (strtoll's negative zero) is a lenient spelling of 0 and
// not judged; a negative number or no number is invalid under every reading
bool negZero(const std::string &e, size_t at) {
    size_t i = at;
    while (i < e.size() && e[i] == '0') ++i;
    return i > at && !(i < e.size() && isDig(e[i]));
}

// classifies one list element (already OWS-trimmed, non-empty)
Kind classify(const std::string &e, Spec &sp) {
    const size_t n = e.size();
    for (char c : e) if (c == '\r' || c == '\n' || c == '\v' || c == '\f') return Grey; // exotic whitespace: not judged
    // strict RFC 9110 grammar
    size_t i = 0;
    while (i < n && isDig(e[i])) ++i;
    if (i < n && e[i] == '-') {
        size_t j = i + 1;
        while (j < n && isDig(e[j])) ++j;
        if (j == n) {
            if (i == 0 && j == 1) return Invalid; // "-"
            if (i == 0) { sp = {2, num(e, 1, n), 0}; return Valid; }
            if (j == i + 1) { sp = {1, num(e, 0, i), 0}; return Valid; }
            sp = {0, num(e, 0, i), num(e, i + 1, n)};
            return sp.b < sp.a ? Invalid : Valid; // last-pos < first-pos: invalid (RFC 9110 14.1.1)
        }
    }
    // not strictly valid: clearly invalid, or lenient (strtoll-style) syntax that the statement leaves open
    if (e.find('-') == std::string::npos) return Invalid;
    const char c0 = e[0];
    if (!isDig(c0) && c0 != '-' && c0 != '+') return Invalid;
    if (c0 == '+') return Grey;
    if (c0 == '-') {
        const char c1 = e[1]; // n >= 2 here ("-" alone was handled)
        if (c1 == '-') return negZero(e, 2) ? Grey : Invalid;
        return (isDig(c1) || c1 == '+' || isOws(c1)) ? Grey : Invalid;
    }
    // digit run first
    if (e[i] == '-') { // i < n because there is a '-' somewhere and the digit run ended
        const char c = e[i + 1]; // exists: otherwise strictly valid open range
        if (c == '-') return negZero(e, i + 2) ? Grey : Invalid;
        return (isDig(c) || c == '+' || isOws(c)) ? Grey : Invalid;
    }
    return Grey; // number followed by garbage, '-' later
}

struct Ref {
    enum { Ignore, Specs, NotJudged } kind;
    std::vector<Spec> specs;
    bool huge = false; // some number exceeds INT64_MAX
};

Ref reference(const std::string &v) {
    Ref r; r.kind = Ref::Ignore;
    if (v.size() < 6 || strncasecmp(v.c_str(), "bytes=", 6) != 0) return r; // other unit / malformed: ignored
    bool grey = false, invalid = false;
    const bool quoted = v.find('"') != std::string::npos || v.find('\\') != std::string::npos;
    size_t p = 6;
    while (p <= v.size()) {
        size_t q = v.find(',', p);
        if (q == std::string::npos) q = v.size();
        size_t b = p, e = q;
        while (b < e && isOws(v[b])) ++b;
        while (e > b && isOws(v[e - 1])) --e;
        if (e > b) {
            Spec sp{0, 0, 0};
            switch (classify(v.substr(b, e - b), sp)) {
            case Valid: r.specs.push_back(sp); if (sp.a > (u128)INT64_MAX || sp.b > (u128)INT64_MAX) r.huge = true; break;
            case Invalid: invalid = true; break;
            case Grey: grey = true; break;
            }
        }
        p = q + 1;
    }
    if (quoted) { r.kind = Ref::NotJudged; return r; } // Squid's list splitter honours quoted-strings: element boundaries differ
    if (invalid) { r.kind = Ref::Ignore; return r; } // any reading of the lenient rest still leaves an invalid spec
    if (grey) { r.kind = Ref::NotJudged; return r; }
    r.kind = r.specs.empty() ? Ref::Ignore : Ref::Specs; // 1#range-spec: at least one
    return r;
}

// RFC 9110 14.1.2: bytes selected by a spec in a representation of `len` bytes
bool selected(const Spec &s, u128 len, Iv &iv) {
    switch (s.type) {
    case 0: if (s.a >= len) return false; iv = Iv(s.a, std::min(s.b + 1, len)); return true;
    case 1: if (s.a >= len) return false; iv = Iv(s.a, len); return true;
    default: if (s.a == 0 || len == 0) return false; iv = Iv(s.a >= len ? 0 : len - s.a, len); return true;
    }
}

std::vector<Iv> normalise(std::vector<Iv> v) {
    std::sort(v.begin(), v.end());
    std::vector<Iv> out;
    for (const auto &x : v) {
        if (!out.empty() && x.first <= out.back().second) out.back().second = std::max(out.back().second, x.second);
        else out.push_back(x);
    }
    return out;
}

std::string str128(u128 v) { if (v == 0) return "0"; std::string r; while (v) { r.insert(r.begin(), (char)('0' + (int)(v % 10))); v /= 10; } return r; }
std::string showSet(const std::vector<Iv> &v) {
    std::string r = "{";
    for (const auto &x : v) r += "[" + str128(x.first) + "," + str128(x.second) + ")";
    return r + "}";
}

const char *lenBucket(int64_t l) { return l == 0 ? "0" : l <= 64 ? "s" : l < (1LL << 31) ? "m" : l < (1LL << 62) ? "l" : "x"; }

void run(Ctx &ctx, const std::string &w) {
    const auto nl = w.find('\n');
    if (nl == std::string::npos) return;
    const int64_t clen = strtoll(w.substr(0, nl).c_str(), nullptr, 10);
    std::string value = w.substr(nl + 1);
    if (clen < 0 || value.find('\0') != std::string::npos) { ctx.grey(); return; }

    const Ref ref = reference(value);

    String field(value.c_str());
    HttpHdrRange *r = HttpHdrRange::ParseCreate(&field);
    const size_t parsedSpecs = r ? r->specs.size() : 0;
    int ret = 0;
    std::vector<Iv> got;
    std::string shape;
    if (r) {
        ret = r->canonize(clen);
        for (const auto *s : r->specs) {
            if (s->offset < 0) shape += "offset<0;";
            if (s->length <= 0) shape += "empty;";
            else if (s->offset >= 0) {
                if ((u128)s->offset + (u128)s->length > (u128)clen) shape += "beyond-length;";
                got.push_back(Iv((u128)s->offset, (u128)s->offset + (u128)s->length));
            }
        }
        if ((ret != 0) != !r->specs.empty()) shape += "return-value;";
    }
    const size_t canonSpecs = r ? r->specs.size() : 0;
    delete r;
    ctx.ubsanGate({"HttpHdrRange.cc", "Range.h"});

    // statement clauses that hold for every input: canonical ranges are non-empty and inside the representation
    if (!shape.empty())
        ctx.violation("canon:bad-spec:" + shape.substr(0, shape.find(';')), "canonize(" + std::to_string(clen) + ") of '" + vh::show(value) + "' left a canonical spec that is " + shape);

    if (ref.kind == Ref::NotJudged) { ctx.grey(); return; }

    if (ref.kind == Ref::Ignore) {
        ctx.feature(std::string("ign") + (parsedSpecs ? "!" : "") + (value.size() >= 6 && !strncasecmp(value.c_str(), "bytes=", 6) ? "b" : "o") + std::to_string(std::min<size_t>(std::count(value.begin(), value.end(), ','), 6)),
                    value.size() > 6);
        if (parsedSpecs)
            ctx.violation("parse:invalid-spec-not-ignored", "'" + vh::show(value) + "' has a syntactically invalid spec (or no spec / not bytes) but ParseCreate kept " + std::to_string(parsedSpecs) + " specs");
        return;
    }

    // all specs strictly valid
    if (!parsedSpecs && ref.huge) { ctx.grey(); return; } // positions beyond int64: Squid ignores the header (permitted, unrepresentable)

    std::vector<Iv> want;
    std::string feat = "ok";
    feat += lenBucket(clen);
    size_t k = 0;
    for (const auto &s : ref.specs) {
        Iv iv;
        const bool sat = selected(s, (u128)clen, iv);
        if (sat) want.push_back(iv);
        if (k++ < 4) {
            feat += (char)('a' + s.type);
            feat += !sat ? 'u' : (s.type == 0 && s.b + 1 > (u128)clen) || (s.type == 2 && s.a > (u128)clen) ? 'c' : 'i';
            if (s.a > (u128)INT64_MAX - 2 || s.b > (u128)INT64_MAX - 2) feat += 'X';
        }
    }
    feat += "n" + std::to_string(std::min<size_t>(ref.specs.size(), 8));
    const auto wantN = normalise(want), gotN = normalise(got);
    feat += "u" + std::to_string(std::min<size_t>(wantN.size(), 5));
    if (wantN.size() != want.size()) feat += "o"; // overlapping/adjacent specs
    ctx.feature(feat);
    ctx.count("canonical_specs", (long)canonSpecs);

    if (!parsedSpecs) {
        ctx.violation("parse:valid-header-ignored", "'" + vh::show(value) + "' has only valid specs but ParseCreate ignored it");
        return;
    }
    // the key names the input class when a spec's last-byte-pos is exactly INT64_MAX (one root cause, one identity)
    bool lastIsMax = false;
    for (const auto &s : ref.specs) if (s.type == 0 && s.b == (u128)INT64_MAX) lastIsMax = true;
    if (gotN != wantN)
        ctx.violation(std::string(wantN.empty() ? "canon:unsatisfiable-kept" : gotN.empty() ? "canon:satisfiable-dropped" : "canon:wrong-byte-set") + (lastIsMax ? ":last-pos=INT64_MAX" : ""),
                      "canonize(" + std::to_string(clen) + ") of '" + vh::show(value) + "' covers " + showSet(gotN) + " expected " + showSet(wantN));
}

// ---- generators ----------------------------------------------------------------------------

std::string genNum(Rng &r, int64_t hint) {
    std::string s;
    switch (r.below(10)) {
    case 0: case 1: case 2: s = std::to_string(r.below(70)); break;
    case 3: case 4: s = std::to_string(std::max<int64_t>(0, (hint > INT64_MAX - 2 ? INT64_MAX - 2 : hint) + r.range(-2, 2))); break;
    case 5: { // int64 / int32 boundaries, including unrepresentable ones
        static const u128 lim[] = {(u128)INT64_MAX, (u128)INT64_MAX + 1, ((u128)1 << 64) - 1, (u128)1 << 64, (u128)INT32_MAX, (u128)UINT32_MAX, (u128)1 << 62};
        s = str128(lim[r.chance(1, 2) ? 0 : r.below(7)] + (u128)r.range(0, 4) - 2);
        break; }
    case 6: s = std::to_string(r.next() >> (1 + r.below(63))); break;
    case 7: s = std::to_string(INT64_MAX - (int64_t)r.below(4)); break;
    case 8: s = r.from("0123456789", 1 + r.below(r.chance(1, 6) ? 25 : 18)); break;
    default: s = std::to_string(r.below(100000)); break;
    }
    if (r.chance(1, 12)) s.insert(0, r.below(3) + 1, '0');
    return s;
}

std::string genSpec(Rng &r, int64_t hint) {
    const unsigned k = (unsigned)r.below(100);
    if (k < 40) { // a-b, usually ordered
        std::string a = genNum(r, hint), b = genNum(r, hint);
        if (r.chance(9, 10)) {
            const u128 x = num(a, 0, a.size()), y = num(b, 0, b.size());
            if (y < x) std::swap(a, b);
        }
        return a + "-" + b;
    }
    if (k < 55) return genNum(r, hint) + "-";
    if (k < 75) return "-" + genNum(r, hint);
    if (k < 78) { const int64_t x = r.below(70); return std::to_string(x) + "-" + std::to_string(x + r.range(0, 3)); }
    if (k < 90) // clearly invalid
        return r.pick({"-", "5", "abc", "x-5", "5-x", "--5", "5--3", "0--0", "--0", "9-3", "-x", "a-", "=1-2", "1=2", "*", "0x1-2", "1.5-2", ".-", "1_2", "~-1", "7-6", "18446744073709551616-3"});
    if (k < 93) // lenient forms, not judged
        return r.pick({"-+5", "+1-2", "1-+2", "1 -2", "1- 2", "- 5", "1x-2", "1-2x", "-5x", "1 2-3", "1-2 3", "\"1-2\"", "1\\-2", "1-\v2"});
    // one random edit of a valid spec
    std::string s = genNum(r, hint) + "-" + genNum(r, hint);
    const size_t at = r.below(s.size() + 1);
    const char c = r.from("0123456789-+ \t,=x\"", 1)[0];
    if (r.coin() && at < s.size()) s[at] = c; else s.insert(at, 1, c);
    return s;
}

int64_t genLen(Rng &r) {
    switch (r.below(8)) {
    case 0: case 1: case 2: case 3: return (int64_t)r.below(66);
    case 4: return (int64_t)r.below(100000);
    case 5: { static const int64_t l[] = {INT64_MAX, INT64_MAX - 1, 1LL << 62, 1LL << 32, (1LL << 31) - 1, 1LL << 31, 1, 0}; return l[r.below(8)]; }
    case 6: return (int64_t)(r.next() >> (1 + r.below(63)));
    default: return (int64_t)r.below(1000);
    }
}

std::string gen(Rng &r) {
    const int64_t clen = genLen(r);
    std::string v;
    const unsigned u = (unsigned)r.below(60);
    if (u == 0) v = r.pick({"items=", "byte=", "bytes", "bytes =", "none=", "", "=", "bytes:"});
    else if (u < 4) v = r.pick({"Bytes=", "BYTES=", "bYtEs="});
    else v = "bytes=";
    size_t n = 1 + r.below(4);
    if (r.chance(1, 25)) n = r.below(12);
    for (size_t i = 0; i < n; ++i) {
        if (i) v += r.chance(3, 4) ? "," : r.pick({", ", " ,", ",,", ", ,", ",\t", " , "});
        v += genSpec(r, clen);
    }
    if (r.chance(1, 30)) v += r.pick({",", " ", ", ", ",,"});
    if (r.chance(1, 30)) v.insert(6 <= v.size() ? 6 : v.size(), r.pick({",", " ", ", "}));
    for (auto &c : v) if (c == '\0') c = 'x';
    return enc(clen, v);
}

std::string specText(int type, int a, int b) {
    return type == 0 ? std::to_string(a) + "-" + std::to_string(b) : type == 1 ? std::to_string(a) + "-" : "-" + std::to_string(a);
}

int drive(Ctx &ctx) {
    if (!ctx.replaying) {
        // exhaustive small scopes, split over the shards
        long n = 0, idx = 0;
        auto one = [&](int64_t len, const std::string &v) {
            if (idx++ % ctx.nshards != ctx.shard) return;
            const std::string w = enc(len, v);
            ctx.begin(w); run(ctx, w); ++n;
        };
        // (1) every single spec with positions 0..66 against every length 0..64
        std::vector<std::string> singles;
        for (int a = 0; a <= 66; ++a) {
            for (int b = a; b <= 66; ++b) singles.push_back(specText(0, a, b));
            singles.push_back(specText(1, a, 0));
            singles.push_back(specText(2, a, 0));
        }
        for (const auto &s : singles) for (int len = 0; len <= 64; ++len) one(len, "bytes=" + s);
        // (2) every ordered pair of specs with positions 0..P against every length 0..L
        const int P = ctx.thorough ? 13 : 8, L = ctx.thorough ? 12 : 7;
        std::vector<std::string> small;
        for (int a = 0; a <= P; ++a) {
            for (int b = a; b <= P; ++b) small.push_back(specText(0, a, b));
            small.push_back(specText(1, a, 0));
            small.push_back(specText(2, a, 0));
        }
        for (const auto &s : small) for (const auto &t : small) for (int len = 0; len <= L; ++len) one(len, "bytes=" + s + "," + t);
        // (3) 63-bit extremes: every spec over the extreme positions against the extreme lengths
        const std::vector<std::string> ext = {"0", "1", "9223372036854775805", "9223372036854775806", "9223372036854775807", "4611686018427387904"};
        const std::vector<int64_t> extLen = {0, 1, 2, INT64_MAX - 2, INT64_MAX - 1, INT64_MAX, 1LL << 62};
        for (const auto &a : ext) for (int64_t len : extLen) {
            one(len, "bytes=" + a + "-");
            one(len, "bytes=-" + a);
            for (const auto &b : ext) if (num(a, 0, a.size()) <= num(b, 0, b.size())) {
                one(len, "bytes=" + a + "-" + b);
                one(len, "bytes=0-0," + a + "-" + b);
                one(len, "bytes=" + a + "-" + b + ",-1");
            }
        }
        ctx.count("small_scope_cases_enumerated", n);
    }
    return vh::Loop(ctx, gen, run);
}

} // namespace

VH_REGISTER(C28, drive, "Range parse+canonize vs interval-set model + UBSan gate");
