// C38 PROXY protocol headers are parsed faithfully and incrementally.
// Differential oracle: ProxyProtocol::Parse() against a reference recogniser/decoder of the
// PROXY protocol v1 (text) and v2 (binary) header formats, on the whole input and on its
// prefixes. A case is the raw input byte string.
#include "squid.h"
#include "vh.h"
#include "base/TextException.h"
#include "ip/Address.h"
#include "parser/BinaryTokenizer.h"
#include "proxyp/Elements.h"
#include "proxyp/Header.h"
#include "proxyp/Parser.h"
#include "sbuf/SBuf.h"

#include <arpa/inet.h>
#include <netinet/in.h>

using vh::Ctx;
using vh::Rng;

namespace {

const std::string Sig2("\x0D\x0A\x0D\x0A\x00\x0D\x0A\x51\x55\x49\x54\x0A", 12);
const size_t V1Max = 107; // whole v1 line including CRLF

// ---------------------------------------------------------------- decoded header (both sides)
struct Hdr {
    std::string version;   // "1.0" / "2.0"
    int command = 1;       // 0 LOCAL, 1 PROXY
    bool hasAddresses = false;
    bool forwarded = false;
    bool v6 = false;
    std::string src, dst;  // 4 or 16 raw bytes (16 always on the observed side)
    int sport = 0, dport = 0;
    std::vector<std::pair<int, std::string>> tlvs;
    size_t size = 0;       // consumed bytes
};

struct Ref {
    enum Kind { Accept, Reject, Incomplete, Grey } kind = Grey;
    std::string why;       // reject / grey reason class (stable, coarse)
    Hdr h;
    bool cmpAddr = false;  // compare addresses and ports
    bool cmpTlvs = false;  // compare TLV list
    bool greyAccept = false; // acceptance itself is not judged, but if accepted the size must match
    std::string shape;     // feature description
};

Ref mk(Ref::Kind k, const std::string &why, const std::string &shape = "") { Ref r; r.kind = k; r.why = why; r.shape = shape; return r; }

// ---------------------------------------------------------------- v1 reference
bool isIpChar(unsigned char c) { return isxdigit(c) || c == '.' || c == ':'; }

bool strictV4(const std::string &t, std::string &raw) {
    // dotted decimal, four octets 0..255, no leading zeros
    int parts = 0; size_t i = 0; raw.clear();
    while (true) {
        size_t s = i; int v = 0;
        while (i < t.size() && isdigit((unsigned char)t[i]) && i - s < 4) { v = v * 10 + (t[i] - '0'); ++i; }
        if (i == s || i - s > 3 || v > 255) return false;
        if (t[s] == '0' && i - s > 1) return false;
        raw += (char)v; ++parts;
        if (i == t.size()) break;
        if (t[i] != '.') return false;
        ++i;
        if (parts == 4) return false;
    }
    return parts == 4;
}
bool looseV4(const std::string &t) { struct in_addr a; return !t.empty() && inet_aton(t.c_str(), &a) != 0; }
bool anyV6(const std::string &t, std::string &raw) {
    struct in6_addr a;
    if (t.find('\0') != std::string::npos) return false;
    if (inet_pton(AF_INET6, t.c_str(), &a) != 1) return false;
    raw.assign((const char *)a.s6_addr, 16);
    return true;
}
bool mappedV6(const std::string &raw16) { return raw16.compare(0, 12, std::string(10, '\0') + "\xff\xff") == 0; }
// would the system resolver see this token as a numeric address (no lookup)?
bool numericTok(const std::string &t) { std::string raw; return t.find('\0') == std::string::npos && (looseV4(t) || anyV6(t, raw)); }

// decimal port per the spec: 0..65535; 1 ok, 0 malformed, 2 leading zeros (not judged), 3 out of range
int portTok(const std::string &t, int &v) {
    if (t.empty()) return 0;
    unsigned long long x = 0; bool big = false;
    for (unsigned char c : t) { if (!isdigit(c)) return 0; if (!big) { x = x * 10 + (c - '0'); if (x > 1000000) big = true; } }
    if (big || x > 65535) return 3;
    v = (int)x;
    if (t.size() > 1 && t[0] == '0') return 2;
    return 1;
}

// the resolver guard: Squid hands every [hexdigit . :]-run followed by SP in address position to
// getaddrinfo() WITHOUT AI_NUMERICHOST. Refuse to execute inputs where any such run is not numeric.
bool wouldResolve(const std::string &in) {
    if (in.compare(0, 5, "PROXY") != 0) return false;
    size_t end = in.find('\r');
    if (end == std::string::npos) end = in.size();
    size_t i = 5;
    while (i < end) {
        if (!isIpChar((unsigned char)in[i])) { ++i; continue; }
        size_t s = i;
        while (i < end && isIpChar((unsigned char)in[i])) ++i;
        if (i < end && in[i] == ' ' && !numericTok(in.substr(s, i - s))) return true;
    }
    return false;
}

Ref refV1(const std::string &x) {
    // x starts with "PROXY"
    const size_t c = x.find('\r');
    if (c == std::string::npos) {
        if (x.size() >= V1Max) return mk(Ref::Reject, "oversize", "1|nocr");
        return mk(Ref::Incomplete, "", "1|nocr");
    }
    if (c + 1 >= x.size()) return mk(Ref::Incomplete, "", "1|cr-at-end");
    if (x[c + 1] != '\n') return mk(Ref::Incomplete, "lone-cr", "1|lonecr"); // cannot become valid: reject or wait, never accept
    if (c + 2 > V1Max) return mk(Ref::Reject, "oversize", "1|long");
    const std::string line = x.substr(5, c - 5); // after the magic
    Ref r;
    r.h.version = "1.0"; r.h.command = 1; r.h.size = c + 2;
    if (line.empty() || line[0] != ' ') return mk(Ref::Reject, "no-sp-after-magic", "1|nosp");
    if (line.compare(1, 7, "UNKNOWN") == 0) {
        if (line.size() > 8 && line[8] != ' ') return mk(Ref::Grey, "unknown-glued", "1|U");
        r.kind = Ref::Accept; r.shape = std::string("1|U|") + (line.size() > 8 ? "rest" : "bare");
        return r;
    }
    // TCP4/TCP6 SP src SP dst SP sport SP dport
    std::vector<std::string> f;
    { size_t s = 1; while (true) { size_t e = line.find(' ', s); if (e == std::string::npos) { f.push_back(line.substr(s)); break; } f.push_back(line.substr(s, e - s)); s = e + 1; } }
    if (f[0] != "TCP4" && f[0] != "TCP6") return mk(Ref::Reject, "proto", "1|badproto");
    const bool six = f[0] == "TCP6";
    const std::string sh = std::string("1|") + f[0];
    if (f.size() < 5) return mk(Ref::Reject, "missing-field", sh + "|short");
    // addresses
    bool grey = false; std::string greyWhy;
    std::string raw[2];
    for (int k = 0; k < 2; ++k) {
        const std::string &t = f[1 + k];
        std::string r4, r6;
        const bool s4 = strictV4(t, r4), a6 = anyV6(t, r6);
        if (six) {
            if (a6 && !mappedV6(r6)) raw[k] = r6;
            else if (a6) { grey = true; greyWhy = "v4-mapped"; }
            else if (s4 || looseV4(t)) return mk(Ref::Reject, "family-mismatch", sh + "|fam");
            else return mk(Ref::Reject, "address", sh + "|addr");
        } else {
            if (s4) raw[k] = r4;
            else if (looseV4(t)) { grey = true; greyWhy = "noncanonical-v4"; }
            else if (a6 && mappedV6(r6)) { grey = true; greyWhy = "v4-mapped"; }
            else if (a6) return mk(Ref::Reject, "family-mismatch", sh + "|fam");
            else return mk(Ref::Reject, "address", sh + "|addr");
        }
    }
    int p[2] = {0, 0};
    for (int k = 0; k < 2; ++k) {
        const int pr = portTok(f[3 + k], p[k]);
        if (pr == 0) {
            // dst port followed by non-digits in the same token is "trailing garbage" too
            const std::string &t = f[3 + k];
            if (k == 1 && !t.empty() && isdigit((unsigned char)t[0])) return mk(Ref::Reject, "trailing-after-dst-port", sh + "|trail");
            return mk(Ref::Reject, "port-syntax", sh + "|portsyn");
        }
        if (pr == 3) return mk(Ref::Reject, "port-range", sh + "|portrange");
        if (pr == 2) { grey = true; greyWhy = "port-leading-zero"; }
    }
    if (f.size() > 5) return mk(Ref::Reject, "trailing-after-dst-port", sh + "|trail");
    if (grey) return mk(Ref::Grey, greyWhy, sh + "|grey");
    r.kind = Ref::Accept; r.cmpAddr = true;
    r.h.hasAddresses = r.h.forwarded = true; r.h.v6 = six;
    r.h.src = raw[0]; r.h.dst = raw[1]; r.h.sport = p[0]; r.h.dport = p[1];
    r.shape = sh + "|ok|" + std::to_string(f[1].size() / 8) + "," + std::to_string(f[2].size() / 8) + "|" + std::to_string(f[3].size()) + std::to_string(f[4].size());
    return r;
}

// ---------------------------------------------------------------- v2 reference
Ref refV2(const std::string &x) {
    // x starts with the 12-byte signature
    if (x.size() < 16) return mk(Ref::Incomplete, "", "2|fixed");
    const unsigned vc = (unsigned char)x[12], fp = (unsigned char)x[13];
    const size_t L = ((unsigned char)x[14] << 8) | (unsigned char)x[15];
    const std::string lb = L < 12 ? "a" : L < 36 ? "b" : L < 216 ? "c" : L < 1024 ? "d" : "e";
    if (x.size() < 16 + L) return mk(Ref::Incomplete, "", "2|body|" + lb);
    const unsigned ver = vc >> 4, cmd = vc & 15, fam = fp >> 4, proto = fp & 15;
    char hx[16]; snprintf(hx, sizeof hx, "%02x%02x", vc, fp);
    const std::string sh = std::string("2|") + hx + "|" + lb;
    if (ver != 2) return mk(Ref::Reject, "version", "2|ver");
    if (cmd > 1) return mk(Ref::Reject, "command", "2|cmd");
    if (fam > 3) return mk(Ref::Reject, "family", "2|fam");
    if (proto > 2) return mk(Ref::Reject, "proto", "2|proto");
    Ref r;
    r.h.version = "2.0"; r.h.command = (int)cmd; r.h.size = 16 + L;
    if (fam == 0 && proto == 0) { r.kind = Ref::Accept; r.shape = sh + "|unspec"; return r; }
    if (fam == 0 || proto == 0) { r.kind = Ref::Grey; r.why = "half-unspec"; r.greyAccept = true; r.shape = sh; return r; }
    const size_t B = fam == 1 ? 12 : fam == 2 ? 36 : 216;
    if (L < B) {
        if (cmd == 0) { r.kind = Ref::Grey; r.why = "local-short-block"; r.greyAccept = true; r.shape = sh; return r; }
        return mk(Ref::Reject, "short-address-block", sh + "|short");
    }
    r.h.hasAddresses = true; r.h.forwarded = cmd == 1;
    const char *a = x.data() + 16;
    if (fam == 1) { r.h.src.assign(a, 4); r.h.dst.assign(a + 4, 4); r.h.sport = ((unsigned char)a[8] << 8) | (unsigned char)a[9]; r.h.dport = ((unsigned char)a[10] << 8) | (unsigned char)a[11]; }
    else if (fam == 2) { r.h.v6 = true; r.h.src.assign(a, 16); r.h.dst.assign(a + 16, 16); r.h.sport = ((unsigned char)a[32] << 8) | (unsigned char)a[33]; r.h.dport = ((unsigned char)a[34] << 8) | (unsigned char)a[35]; }
    r.cmpAddr = (fam == 1 || fam == 2) && cmd == 1;
    // TLVs
    size_t i = 16 + B; const size_t end = 16 + L; bool bad = false;
    while (i < end) {
        if (end - i < 3) { bad = true; break; }
        const int t = (unsigned char)x[i]; const size_t n = ((unsigned char)x[i + 1] << 8) | (unsigned char)x[i + 2];
        if (end - i - 3 < n) { bad = true; break; }
        r.h.tlvs.emplace_back(t, x.substr(i + 3, n));
        i += 3 + n;
    }
    if (cmd == 0) {
        // LOCAL: the receiver discards the block; whether TLVs are exposed or validated is open
        if (bad) { r.kind = Ref::Grey; r.why = "local-bad-tlv"; r.greyAccept = true; r.shape = sh; return r; }
        r.kind = Ref::Accept; r.h.tlvs.clear(); r.shape = sh + "|local";
        return r;
    }
    if (bad) return mk(Ref::Reject, "tlv-overrun", sh + "|tlvbad");
    r.kind = Ref::Accept; r.cmpTlvs = true;
    r.shape = sh + "|ok|t" + std::to_string(std::min<size_t>(r.h.tlvs.size(), 5));
    return r;
}

Ref reference(const std::string &x) {
    if (x.compare(0, 12, Sig2) == 0 && x.size() >= 12) return refV2(x);
    if (x.compare(0, 5, "PROXY") == 0 && x.size() >= 5) return refV1(x);
    if (x.size() < 12) return mk(Ref::Incomplete, "", "nomagic-short");
    return mk(Ref::Reject, "magic", "nomagic");
}

// ---------------------------------------------------------------- the real thing
struct Real { enum Kind { Accept, Reject, More } kind = Reject; Hdr h; std::string err; };

std::string rawOf(const Ip::Address &a) { struct in6_addr x; a.getInAddr(x); return std::string((const char *)x.s6_addr, 16); }

Real real(const std::string &in) {
    Real r;
    try {
        const SBuf buf(in.data(), in.size());
        const auto parsed = ProxyProtocol::Parse(buf);
        r.kind = Real::Accept;
        const auto &h = *parsed.header;
        r.h.size = parsed.size;
        r.h.version.assign(h.version().rawContent(), h.version().length());
        const SBuf cmd = h.getValues(ProxyProtocol::Two::htPseudoCommand);
        r.h.command = cmd.length() == 1 ? cmd[0] - '0' : -1;
        r.h.hasAddresses = h.hasAddresses();
        r.h.forwarded = h.hasForwardedAddresses();
        r.h.v6 = h.sourceAddress.isIPv6();
        r.h.src = rawOf(h.sourceAddress); r.h.dst = rawOf(h.destinationAddress);
        r.h.sport = h.sourceAddress.port(); r.h.dport = h.destinationAddress.port();
        for (const auto &t : h.tlvs) r.h.tlvs.emplace_back((int)t.type, std::string(t.value.rawContent(), t.value.length()));
    } catch (const Parser::InsufficientInput &) {
        r.kind = Real::More;
    } catch (const std::exception &e) {
        r.kind = Real::Reject; r.err = e.what();
    }
    return r;
}

std::string ser(const Hdr &h) {
    std::string s = h.version + "|" + std::to_string(h.command) + "|" + (h.hasAddresses ? "A" : "-") + (h.forwarded ? "F" : "-") + "|" + std::to_string(h.size) + "|";
    if (h.hasAddresses) s += vh::hexEncode(h.src) + ":" + std::to_string(h.sport) + ">" + vh::hexEncode(h.dst) + ":" + std::to_string(h.dport);
    for (auto &t : h.tlvs) s += "|" + std::to_string(t.first) + "=" + vh::hexEncode(t.second);
    return s;
}

std::string widen(const std::string &raw) { return raw.size() == 4 ? std::string(10, '\0') + "\xff\xff" + raw : raw; }

// compares an accepted result with the reference's expectation; returns violation key suffix or ""
std::string diff(const Ref &ref, const Hdr &got, std::string &detail) {
    const Hdr &e = ref.h;
    if (got.size != e.size) { detail = "consumed " + std::to_string(got.size) + " expected " + std::to_string(e.size); return "wrong-size"; }
    if (ref.greyAccept) return "";
    if (got.version != e.version) { detail = "version " + got.version + " expected " + e.version; return "wrong-version"; }
    if (got.command != e.command) { detail = "command " + std::to_string(got.command) + " expected " + std::to_string(e.command); return "wrong-command"; }
    if (got.hasAddresses != e.hasAddresses || got.forwarded != e.forwarded) { detail = "address presence flags differ: got hasAddresses=" + std::to_string(got.hasAddresses) + " forwarded=" + std::to_string(got.forwarded); return "wrong-address-presence"; }
    if (ref.cmpAddr) {
        if (got.src != widen(e.src) || got.dst != widen(e.dst)) { detail = "addresses " + vh::hexEncode(got.src) + " " + vh::hexEncode(got.dst) + " expected " + vh::hexEncode(widen(e.src)) + " " + vh::hexEncode(widen(e.dst)); return "wrong-address"; }
        if (got.sport != e.sport || got.dport != e.dport) { detail = "ports " + std::to_string(got.sport) + "," + std::to_string(got.dport) + " expected " + std::to_string(e.sport) + "," + std::to_string(e.dport); return "wrong-port"; }
    }
    if (ref.cmpTlvs || e.version == "1.0") {
        if (got.tlvs != e.tlvs) { detail = "TLV list differs: got " + std::to_string(got.tlvs.size()) + " expected " + std::to_string(e.tlvs.size()); return "wrong-tlvs"; }
    }
    return "";
}

// judge one input (whole or prefix) against the reference for that very input
// returns a one-letter outcome code for the feature vector
char judge(Ctx &ctx, const std::string &in, const Ref &ref, const Real &got, const char *scope) {
    const std::string ver = ref.shape.empty() ? "?" : ref.shape.substr(0, 1) == "1" ? "v1" : ref.shape.substr(0, 1) == "2" ? "v2" : "nomagic";
    const std::string where = std::string(scope) + " input " + vh::show(in, 160) + ": ";
    const char code = got.kind == Real::Accept ? 'A' : got.kind == Real::More ? 'M' : 'R';
    switch (ref.kind) {
    case Ref::Accept:
        if (got.kind == Real::Reject) ctx.violation(ver + ":rejected-wellformed", where + "well-formed header rejected: " + got.err);
        else if (got.kind == Real::More) ctx.violation(ver + ":wants-more-for-complete-header", where + "complete well-formed header of " + std::to_string(ref.h.size) + " bytes, parser asks for more");
        else { std::string d; const std::string k = diff(ref, got.h, d); if (!k.empty()) ctx.violation(ver + ":" + k, where + d); }
        break;
    case Ref::Reject:
        if (got.kind == Real::Accept) ctx.violation(ver + ":accepted-malformed:" + ref.why, where + "malformed header (" + ref.why + ") accepted as " + ser(got.h));
        else if (got.kind == Real::More) ctx.violation(ver + ":wants-more-for-malformed:" + ref.why, where + "malformed header (" + ref.why + ") is complete, yet parser asks for more bytes");
        break;
    case Ref::Incomplete:
        if (got.kind == Real::Accept) ctx.violation(ver + ":accepted-incomplete", where + "incomplete header accepted as " + ser(got.h));
        break;
    case Ref::Grey:
        if (ref.greyAccept && got.kind == Real::Accept) { std::string d; const std::string k = diff(ref, got.h, d); if (!k.empty()) ctx.violation(ver + ":" + k, where + d); }
        break;
    }
    return code;
}

void run(Ctx &ctx, const std::string &w) {
    if (wouldResolve(w)) { ctx.count("skipped_would_call_resolver"); ctx.grey(); return; }
    const Ref ref = reference(w);
    const Real whole = real(w);
    judge(ctx, w, ref, whole, "whole");
    const std::string wholeSer = whole.kind == Real::Accept ? ser(whole.h) : "";

    // prefixes: all of them for short inputs; a deterministic selection for long ones
    std::vector<size_t> cuts;
    if (w.size() <= 300) { for (size_t n = 0; n < w.size(); ++n) cuts.push_back(n); }
    else {
        std::set<size_t> s;
        for (size_t n = 0; n <= 40; ++n) s.insert(n);
        const size_t hl = ref.h.size;
        for (size_t d = 0; d <= 3; ++d) { if (hl >= d) s.insert(hl - d); s.insert(hl + d); s.insert(w.size() - 1 - d); }
        Rng pr(Ctx::hash(w));
        for (int k = 0; k < 60; ++k) s.insert(pr.below(w.size()));
        for (size_t n : s) if (n < w.size()) cuts.push_back(n);
    }
    std::string pattern; // outcome code transitions over growing prefixes
    long prefAccepts = 0;
    for (size_t n : cuts) {
        const std::string p = w.substr(0, n);
        const Real got = real(p);
        const char code = judge(ctx, p, reference(p), got, "prefix");
        if (pattern.empty() || pattern.back() != code) pattern += code;
        if (got.kind == Real::Accept) {
            ++prefAccepts;
            // the statement's core: a prefix that parses yields what the complete input yields
            if (whole.kind != Real::Accept)
                ctx.violation("prefix:accepted-but-whole-not", "prefix of " + std::to_string(n) + " bytes parsed as " + ser(got.h) + " but the complete input " + vh::show(w, 160) + (whole.kind == Real::More ? " asks for more" : " is rejected: " + whole.err));
            else if (ser(got.h) != wholeSer)
                ctx.violation("prefix:different-header", "prefix of " + std::to_string(n) + " bytes parsed as " + ser(got.h) + " but the complete input parsed as " + wholeSer);
            if (got.h.size > n) ctx.violation("prefix:consumed-beyond-input", "consumed " + std::to_string(got.h.size) + " of " + std::to_string(n));
        } else if (got.kind == Real::Reject && (ref.kind == Ref::Accept)) {
            // allowed by the statement; no valid header has an invalid prefix, so report it
            ctx.count("prefix_rejected_although_whole_wellformed");
            ctx.note("prefix of " + std::to_string(n) + " bytes rejected (" + got.err + ") although whole input is well-formed: " + vh::show(w, 120));
        }
    }
    ctx.ubsanGate({"proxyp/", "BinaryTokenizer"});
    ctx.count("prefix_parses", (long)cuts.size());
    if (ref.kind == Ref::Grey && !ref.greyAccept) { ctx.count("grey:" + ref.why); ctx.grey(); return; }
    if (ref.kind == Ref::Grey) ctx.count("grey-accept:" + ref.why);
    const char wc = whole.kind == Real::Accept ? 'A' : whole.kind == Real::More ? 'M' : 'R';
    const size_t trail = ref.kind == Ref::Accept && w.size() >= ref.h.size ? w.size() - ref.h.size : 0;
    const std::string feat = ref.shape + "|" + std::string(1, "ARIG"[ref.kind]) + ref.why + "|" + wc + "|" + pattern + "|" + (trail == 0 ? "t0" : trail < 8 ? "t1" : "t2");
    ctx.feature(feat, !w.empty());
}

// ---------------------------------------------------------------- generators
std::string genV4(Rng &r) {
    std::string s;
    for (int i = 0; i < 4; ++i) {
        int v;
        switch (r.below(5)) { case 0: v = 0; break; case 1: v = 255; break; case 2: v = (int)r.below(10); break; case 3: v = (int)r.range(100, 255); break; default: v = (int)r.below(256); }
        s += std::to_string(v) + (i < 3 ? "." : "");
    }
    return s;
}
std::string genV6(Rng &r) {
    unsigned g[8];
    for (auto &x : g) { switch (r.below(5)) { case 0: x = 0; break; case 1: x = 0xffff; break; case 2: x = (unsigned)r.below(16); break; default: x = (unsigned)r.below(65536); } }
    if (r.chance(1, 3)) { size_t a = r.below(8), b = a + r.below(8 - a); for (size_t i = a; i <= b; ++i) g[i] = 0; }
    if (!g[0] && !g[1] && !g[2] && !g[3] && !g[4] && g[5] == 0xffff && !r.chance(1, 10)) g[5] = 0xfffe; // steer away from v4-mapped (not judged)
    const bool upper = r.chance(1, 4);
    std::string s; char b[64];
    switch (r.below(5)) {
    case 0: case 1: { // canonical compressed text
        struct in6_addr a; for (int i = 0; i < 8; ++i) { a.s6_addr[2 * i] = g[i] >> 8; a.s6_addr[2 * i + 1] = g[i] & 255; }
        s = inet_ntop(AF_INET6, &a, b, sizeof b) ? b : "::";
        break; }
    case 2: for (int i = 0; i < 8; ++i) { snprintf(b, sizeof b, "%x%s", g[i], i < 7 ? ":" : ""); s += b; } break;
    case 3: for (int i = 0; i < 8; ++i) { snprintf(b, sizeof b, "%04x%s", g[i], i < 7 ? ":" : ""); s += b; } break;
    default: for (int i = 0; i < 6; ++i) { snprintf(b, sizeof b, "%x:", g[i]); s += b; }
        s += std::to_string(g[6] >> 8) + "." + std::to_string(g[6] & 255) + "." + std::to_string(g[7] >> 8) + "." + std::to_string(g[7] & 255);
        break;
    }
    if (upper) for (auto &c : s) c = (char)toupper((unsigned char)c);
    return s;
}
std::string genPort(Rng &r) {
    switch (r.below(8)) {
    case 0: return std::to_string(r.pick(std::vector<int>{0, 1, 2, 9, 10, 80, 99, 100, 443, 999, 1000, 9999, 10000, 32767, 32768, 65534, 65535}));
    case 1: return std::to_string(r.below(10));
    default: return std::to_string(r.below(65536));
    }
}
std::string genBadPort(Rng &r) {
    switch (r.below(7)) {
    case 0: return std::to_string(65536 + r.below(10));
    case 1: return r.pick({"70000", "99999", "100000", "131073", "4294967297", "4294967376", "18446744073709551617", "9223372036854775808", "99999999999999999999999"});
    case 2: return r.pick({"-1", "+1", "", "x", "0x10", "1x", "1.", "1e3", "65535x", ":1"});
    case 3: return std::string(r.range(1, 3), '0') + std::to_string(r.below(65536));
    case 4: return std::to_string(r.below(65536)) + r.pick({"x", "\t", ";", "-", "a", "\n"});
    case 5: return std::to_string((uint64_t)65536 * r.range(1, 70000) + r.below(65536));
    default: return std::to_string(r.next());
    }
}
const char *Payloads[] = {"", "", "G", "GET / HTTP/1.1\r\nHost: a\r\n\r\n", "\r\n", "\n", "PROXY UNKNOWN\r\n", "\x16\x03\x01", "\r"};

std::string mutate(Rng &r, std::string s, size_t maxPos) {
    const int n = (int)r.range(1, 3);
    for (int i = 0; i < n && !s.empty(); ++i) {
        const size_t pos = r.below(std::min(s.size(), maxPos));
        switch (r.below(4)) {
        case 0: s[pos] = (char)r.next(); break;
        case 1: s[pos] = r.pick({" ", "\r", "\n", "0", "9", ":", ".", "4", "6", "\t", "T", "\0"})[0]; break;
        case 2: s.erase(pos, 1); break;
        default: s.insert(pos, 1, r.pick({" ", "\r", "\n", "0", "1", ":", ".", "x", "\t"})[0]); break;
        }
    }
    return s;
}

std::string genV1(Rng &r) {
    std::string line = "PROXY ";
    const int kind = (int)r.below(12);
    if (kind == 0) {
        line += "UNKNOWN";
        switch (r.below(5)) { case 0: break; case 1: line += " " + genV6(r) + " " + genV6(r) + " " + genPort(r) + " " + genPort(r); break; case 2: line += " " + r.from("abcxyz 09", r.below(30)); break; case 3: line += std::string(" ") + std::string(r.range(80, 100), 'u'); break; default: line += r.pick({"x", " ", "  ", "\t"}); }
    } else {
        bool six = r.coin();
        std::string proto = six ? "TCP6" : "TCP4";
        std::string a = six ? genV6(r) : genV4(r), b = six ? genV6(r) : genV4(r), sp = genPort(r), dp = genPort(r), tail;
        switch (kind) {
        case 1: proto = r.pick({"TCP", "TCP5", "TCP46", "TCP44", "tcp4", "UDP4", "TCP 4", "", "TCP4 ", "UNKNOW"}); break;
        case 2: (r.coin() ? sp : dp) = genBadPort(r); break;
        case 3: switch (r.below(3)) { case 0: a = six ? genV4(r) : genV6(r); break; case 1: b = six ? genV4(r) : genV6(r); break; default: a = six ? genV4(r) : genV6(r); b = six ? genV4(r) : genV6(r); } break;
        case 4: tail = r.pick({" garbage here", "x", " ", "\t", " 3", ".", ":", "  ", " x", "\n", ";", "\0"}); if (tail.empty()) tail = std::string(1, '\0'); break;
        case 5: // noncanonical but numeric addresses (not judged) and mapped forms
            (r.coin() ? a : b) = r.pick({"1.2.3", "1.2", "16909060", "01.2.3.4", "1.2.3.04", "::ffff:1.2.3.4", "::FFFF:102:304", "0:0:0:0:0:ffff:1.2.3.4", "::1.2.3.4", "1.2.3.256", "256.1.1.1", "1.2.3.4.5", "1..2.3", ":::", "::", "1:2:3:4:5:6:7:8:9", "12345::", "1.2.3.4:80", "."});
            break;
        case 6: tail = std::string(r.range(40, 70), r.coin() ? ' ' : '7'); break; // oversize
        default: break;
        }
        line += proto + " " + a + " " + b + " " + sp + " " + dp + tail;
        if (kind == 7 && r.coin()) { // drop or double a separator
            size_t pos = line.find(' ', r.below(line.size()));
            if (pos != std::string::npos) { if (r.coin()) line.erase(pos, 1); else line.insert(pos, 1, ' '); }
        }
        if (kind == 7 && r.chance(1, 3)) { size_t sp2 = line.rfind(' '); line.erase(sp2); if (r.coin()) line.erase(line.rfind(' ')); } // missing fields
    }
    switch (r.below(16)) { case 0: line += "\n"; break; case 1: line += "\r"; break; case 2: line += "\r\r\n"; break; case 3: break; case 4: line += "\r\n\r\n"; break; default: line += "\r\n"; }
    if (r.chance(1, 30)) line.erase(0, r.range(1, 5)); // damaged magic
    if (r.chance(1, 30)) line[r.below(5)] ^= 0x20;
    line += std::string(r.pick(std::vector<std::string>{std::string(""), "", "G", "GET / HTTP/1.1\r\nHost: a\r\n\r\n", "\r\n", "\n", "PROXY UNKNOWN\r\n", "\x16\x03\x01", "\r"}));
    if (r.chance(1, 6)) line = mutate(r, line, line.size());
    return line;
}

std::string be16(size_t v) { std::string s; s += (char)(v >> 8); s += (char)(v & 255); return s; }

std::string genV2(Rng &r) {
    unsigned vc = r.chance(3, 4) ? 0x21 : 0x20;
    if (r.chance(1, 12)) vc = (unsigned)r.pick(std::vector<int>{0x22, 0x2f, 0x11, 0x31, 0x01, 0x00, 0xff, 0x23, 0x12});
    unsigned fp = (unsigned)r.pick(std::vector<int>{0x11, 0x11, 0x12, 0x21, 0x21, 0x22, 0x31, 0x32, 0x00});
    if (r.chance(1, 10)) fp = (unsigned)r.pick(std::vector<int>{0x10, 0x20, 0x30, 0x01, 0x02, 0x41, 0x13, 0x23, 0xf1, 0x1f, 0x33, 0xff, 0x40});
    const unsigned fam = fp >> 4;
    const size_t B = fam == 1 ? 12 : fam == 2 ? 36 : fam == 3 ? 216 : (r.coin() ? 0 : r.below(40));
    std::string block = r.bytes(B);
    if ((fam == 1 || fam == 2) && r.coin()) { // boundary ports
        const std::vector<int> ps{0, 1, 80, 255, 256, 65535, 65534, 32768};
        block.replace(B - 4, 2, be16(r.pick(ps))); block.replace(B - 2, 2, be16(r.pick(ps)));
    }
    if (fam == 2 && r.chance(1, 8)) block.replace(0, 12, std::string(10, '\0') + "\xff\xff"); // v4-mapped inside INET6: still 16 raw bytes
    if (fam == 1 && r.chance(1, 8)) block.replace(0, 4, std::string(4, r.coin() ? '\0' : '\xff'));
    std::string tlvs;
    const int nt = r.chance(1, 3) ? 0 : (int)r.range(1, 4);
    for (int i = 0; i < nt; ++i) {
        const int t = r.coin() ? r.pick(std::vector<int>{1, 2, 3, 4, 0x20, 0x21, 0x22, 0x30, 0xe0, 0xee, 0xff, 0}) : (int)r.below(256);
        size_t n = r.chance(1, 4) ? 0 : r.below(24);
        if (r.chance(1, 40)) n = r.range(200, 3000);
        tlvs += (char)t; tlvs += be16(n); tlvs += r.chance(1, 3) ? r.from("abcdefghijklmnopqrstuvwxyz.-0123456789", n) : r.bytes(n);
    }
    std::string body = block + tlvs;
    size_t L = body.size();
    switch (r.below(14)) {
    case 0: L = L + r.range(1, 3); break;                                 // claims more than the TLVs fill (trailing bytes become a broken TLV)
    case 1: if (L) L -= std::min<size_t>(L, r.range(1, 3)); break;        // cuts the last TLV / address block
    case 2: L = r.below(B + 1); break;                                    // inside the address block
    case 3: if (!tlvs.empty()) { size_t at = B + 1; body[at] = (char)0xff; body[at + 1] = (char)0xff; } break; // lying TLV length
    case 4: if (r.chance(1, 6)) { L = 65535; body += r.bytes(L - body.size()); } break;
    default: break;
    }
    std::string s = Sig2;
    s += (char)vc; s += (char)fp; s += be16(L); s += body;
    if (r.chance(1, 8)) s.resize(std::min(s.size(), 16 + L) - std::min<size_t>(r.below(20), std::min(s.size(), 16 + L))); // truncated whole
    else if (r.chance(1, 2)) s += std::string(Payloads[r.below(sizeof Payloads / sizeof *Payloads)]);
    if (r.chance(1, 10)) s = mutate(r, s, 16);
    return s;
}

std::string gen(Rng &r) {
    switch (r.below(20)) {
    case 0: return r.bytes(r.below(20));
    case 1: return r.pick(std::vector<std::string>{"", "P", "PROX", "PROXY", "PROXY ", "PROXY\r\n", "PROXY \r\n", Sig2, Sig2.substr(0, 7), Sig2 + "\x21", "GET / HTTP/1.1\r\n\r\n", "PROXZ TCP4 1.1.1.1 2.2.2.2 1 2\r\n", "proxy TCP4 1.1.1.1 2.2.2.2 1 2\r\n", "\r\n\r\n", Sig2.substr(0, 11) + "X" + "\x21\x11"});
    default: return r.coin() ? genV1(r) : genV2(r);
    }
}

int drive(Ctx &ctx) {
    if (!ctx.replaying) {
        // fixed corpus (split over the shards): boundary lines of 100..112 bytes, each port boundary,
        // v2 (ver/cmd, fam/proto) byte pairs at minimal length (thorough: all 65536 pairs)
        long n = 0, idx = 0;
        auto go = [&](const std::string &w) { if (idx++ % ctx.nshards != ctx.shard) return; ctx.begin(w); run(ctx, w); ++n; };
        for (size_t total = 100; total <= 112; ++total) {
            const std::string head = "PROXY UNKNOWN ";
            go(head + std::string(total - head.size() - 2, 'u') + "\r\n");
            go(head + std::string(total - head.size() - 2, 'u') + "\r\nGET");
            go(head + std::string(total - head.size(), 'u'));
            const std::string t6 = "PROXY TCP6 ffff:ffff:ffff:ffff:ffff:ffff:ffff:ffff ffff:ffff:ffff:ffff:ffff:ffff:ffff:ffff 65535 65535"; // 102
            if (total >= t6.size() + 2) go(t6 + std::string(total - t6.size() - 2, ' ') + "\r\n");
        }
        for (const char *p : {"0", "1", "9", "10", "65534", "65535", "65536", "65537", "99999", "100000", "00", "01", "065535", "4464", "70000", "4294967296", "4294967297", "", "-1", "+1", "2x", "2 ", "2 garbage here"})
            for (int which = 0; which < 2; ++which) {
                go(std::string("PROXY TCP4 1.2.3.4 1.2.3.5 ") + (which ? "1" : p) + " " + (which ? p : "2") + "\r\n");
                go(std::string("PROXY TCP6 ::1 fe80::2 ") + (which ? "1" : p) + " " + (which ? p : "2") + "\r\n");
            }
        for (unsigned vc = 0; vc < 256; ++vc) for (unsigned fp = 0; fp < 256; ++fp) {
            if (!ctx.thorough && !(fp == 0x11 || vc == 0x21 || vc == 0x20)) continue; // thorough: all 65536 byte pairs
            const unsigned fam = fp >> 4; const size_t B = fam == 1 ? 12 : fam == 2 ? 36 : fam == 3 ? 216 : 0;
            std::string s = Sig2; s += (char)vc; s += (char)fp; s += be16(B + 4); s += std::string(B, '\x01'); s += std::string("\x04\x00\x01Z", 4);
            go(s);
        }
        ctx.count("fixed_corpus_cases", n);
    }
    return vh::Loop(ctx, gen, run);
}

} // namespace

VH_REGISTER(C38, drive, "PROXY protocol v1/v2 parser vs reference decoder on whole inputs and all prefixes");
