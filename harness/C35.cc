// C35 HTTP date formatting and parsing round-trip.
// Oracle: proleptic-Gregorian reference (days-from-civil) with strict recognisers for IMF-fixdate, RFC 850
// and asctime dates (RFC 9110 section 5.6.7) next to the real Time::FormatRfc1123 / Time::ParseRfc1123.
#include "squid.h"
#include "vh.h"
#include "time/gadgets.h"

using vh::Ctx;
using vh::Rng;

namespace {

// case encoding:  "F <time_t>\n"   format, compare with the reference IMF-fixdate, parse back
//                 "P -\n<text>"     parse arbitrary text (cut at the first NUL)

const int64_t MaxTime = 253402300799LL; // 9999-12-31 23:59:59

const char *const Mon[12] = {"Jan", "Feb", "Mar", "Apr", "May", "Jun", "Jul", "Aug", "Sep", "Oct", "Nov", "Dec"};
const char *const Wk[7] = {"Sun", "Mon", "Tue", "Wed", "Thu", "Fri", "Sat"};
const char *const WkLong[7] = {"Sunday", "Monday", "Tuesday", "Wednesday", "Thursday", "Friday", "Saturday"};

// H. Hinnant's civil calendar algorithms (proleptic Gregorian)
int64_t daysFromCivil(int64_t y, int m, int d) {
    y -= m <= 2;
    const int64_t era = (y >= 0 ? y : y - 399) / 400;
    const int64_t yoe = y - era * 400;
    const int64_t doy = (153 * (m + (m > 2 ? -3 : 9)) + 2) / 5 + d - 1;
    const int64_t doe = yoe * 365 + yoe / 4 - yoe / 100 + doy;
    return era * 146097 + doe - 719468;
}
void civilFromDays(int64_t z, int64_t &y, int &m, int &d) {
    z += 719468;
    const int64_t era = (z >= 0 ? z : z - 146096) / 146097;
    const int64_t doe = z - era * 146097;
    const int64_t yoe = (doe - doe / 1460 + doe / 36524 - doe / 146096) / 365;
    y = yoe + era * 400;
    const int64_t doy = doe - (365 * yoe + yoe / 4 - yoe / 100);
    const int64_t mp = (5 * doy + 2) / 153;
    d = (int)(doy - (153 * mp + 2) / 5 + 1);
    m = (int)(mp < 10 ? mp + 3 : mp - 9);
    y += m <= 2;
}
bool leap(int64_t y) { return (y % 4 == 0 && y % 100 != 0) || y % 400 == 0; }
int daysIn(int64_t y, int m) { static const int dm[12] = {31, 28, 31, 30, 31, 30, 31, 31, 30, 31, 30, 31}; return m == 2 && leap(y) ? 29 : dm[m - 1]; }
int weekdayOf(int64_t days) { return (int)(((days % 7) + 11) % 7); } // 1970-01-01 was a Thursday (4)

struct Civil { int64_t y; int mo, d, h, mi, s, wd; };
Civil civilOf(int64_t t) {
    Civil c;
    int64_t days = t / 86400, rem = t % 86400;
    if (rem < 0) { rem += 86400; --days; }
    civilFromDays(days, c.y, c.mo, c.d);
    c.h = (int)(rem / 3600); c.mi = (int)(rem % 3600 / 60); c.s = (int)(rem % 60);
    c.wd = weekdayOf(days);
    return c;
}

std::string fmtImf(const Civil &c) { char b[64]; snprintf(b, sizeof b, "%s, %02d %s %04lld %02d:%02d:%02d GMT", Wk[c.wd], c.d, Mon[c.mo - 1], (long long)c.y, c.h, c.mi, c.s); return b; }
std::string fmt850(const Civil &c) { char b[64]; snprintf(b, sizeof b, "%s, %02d-%s-%02d %02d:%02d:%02d GMT", WkLong[c.wd], c.d, Mon[c.mo - 1], (int)(c.y % 100), c.h, c.mi, c.s); return b; }
std::string fmtAsc(const Civil &c) { char b[64]; snprintf(b, sizeof b, "%s %s %2d %02d:%02d:%02d %04lld", Wk[c.wd], Mon[c.mo - 1], c.d, c.h, c.mi, c.s, (long long)c.y); return b; }

// strict recognisers ---------------------------------------------------
struct Ref {
    enum Kind { NotADate, Valid, Grey } kind = NotADate;
    char form = '?';      // 'I' imf-fixdate, '8' rfc850, 'A' asctime
    std::string why;      // grey reason
    int64_t t = 0;
};

bool num(const std::string &s, size_t pos, size_t n, int &v) { v = 0; if (pos + n > s.size()) return false; for (size_t i = 0; i < n; ++i) { if (s[pos + i] < '0' || s[pos + i] > '9') return false; v = v * 10 + (s[pos + i] - '0'); } return true; }
int monthAt(const std::string &s, size_t pos) { for (int i = 0; i < 12; ++i) if (s.compare(pos, 3, Mon[i]) == 0) return i + 1; return 0; }
bool timeAt(const std::string &s, size_t pos, int &h, int &mi, int &sec) { return num(s, pos, 2, h) && pos + 8 <= s.size() && s[pos + 2] == ':' && num(s, pos + 3, 2, mi) && s[pos + 5] == ':' && num(s, pos + 6, 2, sec); }

Ref finish(char form, int wd, int64_t y, int mo, int d, int h, int mi, int sec) {
    Ref r; r.form = form;
    if (h > 23 || mi > 59 || sec > 60 || d < 1 || mo < 1) return r;                          // not in the grammar's value space at all
    if (sec == 60) { r.kind = Ref::Grey; r.why = "leap-second"; return r; }
    if (d > daysIn(y, mo)) { r.kind = Ref::Grey; r.why = "no-such-day"; return r; }           // grammatical, denotes nothing
    const int64_t days = daysFromCivil(y, mo, d);
    if (weekdayOf(days) != wd) { r.kind = Ref::Grey; r.why = "weekday-mismatch"; return r; } // self-contradictory
    r.kind = Ref::Valid;
    r.t = days * 86400 + h * 3600 + mi * 60 + sec;
    return r;
}

Ref refParse(const std::string &s) {
    Ref none;
    int d, y, h, mi, sec;
    // IMF-fixdate: "Sun, 06 Nov 1994 08:49:37 GMT" (29)
    if (s.size() == 29 && s[3] == ',') {
        int wd = -1; for (int i = 0; i < 7; ++i) if (s.compare(0, 3, Wk[i]) == 0) wd = i;
        const int mo = monthAt(s, 8);
        if (wd >= 0 && mo && s[4] == ' ' && num(s, 5, 2, d) && s[7] == ' ' && s[11] == ' ' && num(s, 12, 4, y) && s[16] == ' ' && timeAt(s, 17, h, mi, sec) && s.compare(25, 4, " GMT") == 0)
            return finish('I', wd, y, mo, d, h, mi, sec);
        return none;
    }
    // asctime: "Sun Nov  6 08:49:37 1994" (24)
    if (s.size() == 24 && s[3] == ' ' && s[7] == ' ') {
        int wd = -1; for (int i = 0; i < 7; ++i) if (s.compare(0, 3, Wk[i]) == 0) wd = i;
        const int mo = monthAt(s, 4);
        bool dayOk = s[8] == ' ' ? num(s, 9, 1, d) : num(s, 8, 2, d);
        if (wd >= 0 && mo && dayOk && s[10] == ' ' && timeAt(s, 11, h, mi, sec) && s[19] == ' ' && num(s, 20, 4, y))
            return finish('A', wd, y, mo, d, h, mi, sec);
        return none;
    }
    // RFC 850: "Sunday, 06-Nov-94 08:49:37 GMT"
    for (int i = 0; i < 7; ++i) {
        const size_t l = strlen(WkLong[i]);
        if (s.size() == l + 24 && s.compare(0, l, WkLong[i]) == 0 && s[l] == ',' && s[l + 1] == ' ') {
            const size_t p = l + 2;
            const int mo = monthAt(s, p + 3);
            int yy;
            if (num(s, p, 2, d) && s[p + 2] == '-' && mo && s[p + 6] == '-' && num(s, p + 7, 2, yy) && s[p + 9] == ' ' && timeAt(s, p + 10, h, mi, sec) && s.compare(p + 18, 4, " GMT") == 0) {
                // two-digit year: RFC 9110 pivots on "more than 50 years in the future" of the current date, Squid on 70.
                // judged only where every reading agrees for any current year in 2019..2036
                if (yy >= 70 && yy <= 86) { Ref r; r.form = '8'; r.kind = Ref::Grey; r.why = "rfc850-pivot-year"; return r; }
                return finish('8', i, yy < 70 ? 2000 + yy : 1900 + yy, mo, d, h, mi, sec);
            }
            return none;
        }
    }
    return none;
}

std::string yearBucket(int64_t y) { return y < 1970 ? "pre" : std::to_string(y / 100); }

void runFormat(Ctx &ctx, int64_t t) {
    if (t < 0 || t > MaxTime) { ctx.grey(); return; } // the statement covers 1970..9999
    const Civil c = civilOf(t);
    const std::string ref = fmtImf(c);
    const std::string got = Time::FormatRfc1123((time_t)t);
    const time_t back = Time::ParseRfc1123(got.c_str());
    ctx.ubsanGate({"rfc1123.cc"});
    ctx.feature("F:" + yearBucket(c.y) + ":" + std::to_string(c.mo) + (c.mo == 2 && c.d == 29 ? ":leapday" : "") + (t % 86400 == 0 ? ":midnight" : t % 86400 == 86399 ? ":lastsec" : ""));
    if (got != ref) ctx.violation("format:not-imf-fixdate", "FormatRfc1123(" + std::to_string(t) + ") = " + vh::show(got) + " expected " + ref);
    if ((int64_t)back != t) ctx.violation("roundtrip:parse-of-format-differs", "ParseRfc1123(FormatRfc1123(" + std::to_string(t) + ")) = " + std::to_string((int64_t)back) + " via " + vh::show(got));
}

void runParse(Ctx &ctx, const std::string &raw) {
    std::string s = raw;
    const auto nul = s.find('\0');
    if (nul != std::string::npos) s.resize(nul);
    char *in = (char *)malloc(s.size() + 1); // exact-size: over-reads are ASan reports
    memcpy(in, s.c_str(), s.size() + 1);
    const time_t got = Time::ParseRfc1123(in);
    free(in);
    ctx.ubsanGate({"rfc1123.cc"});
    const Ref ref = refParse(s);
    if (ref.kind == Ref::NotADate) {
        // not one of the three formats: the statement is silent (memory safety only)
        if (got != -1) ctx.count("nonconforming_text_accepted");
        ctx.grey();
        return;
    }
    if (ref.kind == Ref::Grey) {
        if (got != -1) ctx.count("grey_accepted:" + ref.why);
        ctx.grey();
        return;
    }
    const Civil c = civilOf(ref.t);
    ctx.feature(std::string("P:") + ref.form + ":" + yearBucket(c.y) + ":" + std::to_string(c.mo) + ":" + (got == -1 ? "rej" : "acc"));
    if (got == -1) {
        // rejecting is not forbidden by the statement (only Squid's own output must parse: see F); observed and counted
        if (ref.t != -1) ctx.count(std::string("valid_date_rejected:") + ref.form);
        return;
    }
    if ((int64_t)got != ref.t)
        ctx.violation(std::string("parse:wrong-time:") + (ref.form == 'I' ? "imf-fixdate" : ref.form == '8' ? "rfc850" : "asctime"),
                      "ParseRfc1123(" + vh::show(s) + ") = " + std::to_string((int64_t)got) + " but the string denotes " + std::to_string(ref.t));
}

void run(Ctx &ctx, const std::string &w) {
    const auto nl = w.find('\n');
    if (nl == std::string::npos || nl < 3) return;
    if (w[0] == 'F') runFormat(ctx, strtoll(w.c_str() + 2, nullptr, 10));
    else if (w[0] == 'P') runParse(ctx, w.substr(nl + 1));
}

int64_t genTime(Rng &r) {
    switch (r.below(10)) {
    case 0: { // around a year boundary
        const int64_t y = r.range(1970, 9999);
        return std::min<int64_t>(MaxTime, std::max<int64_t>(0, daysFromCivil(y, 1, 1) * 86400 + r.range(-3, 3)));
    }
    case 1: { // end of February / leap days, century rules
        static const int ys[] = {1972, 2000, 2100, 2096, 2400, 1999, 2024, 2038, 9996, 9600, 3000, 2200};
        const int64_t y = r.coin() ? ys[r.below(12)] : r.range(1970, 9999);
        return std::min<int64_t>(MaxTime, daysFromCivil(y, 3, 1) * 86400 + r.range(-2 * 86400, 86400));
    }
    case 2: { static const int64_t b[] = {0, 1, 86399, 86400, 2147483647LL, 2147483648LL, 4294967295LL, 4294967296LL, 946684800LL, 951782400LL, MaxTime, MaxTime - 86400, 32503680000LL}; return std::min<int64_t>(MaxTime, std::max<int64_t>(0, b[r.below(13)] + r.range(-2, 2))); }
    case 3: return r.range(0, 4102444800LL);                 // 1970..2100 dense
    case 4: return r.range(0, MaxTime / 86400) * 86400 + r.pick(std::vector<int>{0, 1, 59, 60, 3599, 3600, 43200, 86399});
    default: return r.range(0, MaxTime);
    }
}

std::string mutateDate(Rng &r, std::string s) {
    const int k = 1 + (int)r.below(2);
    for (int i = 0; i < k; ++i) {
        if (s.empty()) break;
        const size_t pos = r.below(s.size());
        switch (r.below(12)) {
        case 0: case 1: case 2: if (isdigit((unsigned char)s[pos])) s[pos] = (char)('0' + r.below(10)); else { for (size_t j = 0; j < s.size(); ++j) { const size_t q = (pos + j) % s.size(); if (isdigit((unsigned char)s[q])) { s[q] = (char)('0' + r.below(10)); break; } } } break; // another digit (often still a date)
        case 3: s[pos] = (char)r.next(); break;
        case 4: s.erase(pos, 1); break;
        case 5: s.insert(pos, 1, r.from(" ,:-0123456789GMTJanuly", 1)[0]); break;
        case 6: { const auto g = s.find("GMT"); if (g != std::string::npos) s.replace(g, 3, r.pick({"UTC", "gmt", "+0000", "PST", "GMT+1", "", "Z"})); break; }
        case 7: { for (int m = 0; m < 12; ++m) { const auto p = s.find(Mon[m]); if (p != std::string::npos) { s.replace(p, 3, r.coin() ? Mon[r.below(12)] : r.pick({"jan", "DEC", "Foo", "J", "", "Sept"})); break; } } break; }
        case 8: { for (int d = 0; d < 7; ++d) { const auto p = s.find(Wk[d]); if (p == 0) { s.replace(0, 3, Wk[r.below(7)]); break; } } break; }
        case 9: s.resize(pos); break;
        case 10: s += r.pick({" ", " GMT", " 1994", ", ", ":00", "-", std::string(40, '9').c_str()}); break;
        default: s.insert(pos, r.pick({" ", "  ", ",", "\t"})); break;
        }
    }
    return s;
}

std::string gen(Rng &r) {
    const unsigned k = (unsigned)r.below(10);
    if (k < 3) return "F " + std::to_string(genTime(r)) + "\n";
    int64_t t = genTime(r);
    if (r.chance(1, 10)) t = -r.range(0, 62135596800LL); // years 0001..1969: only "accepted => denoted time" is judged
    const Civil c = civilOf(t);
    std::string s;
    const unsigned f = (unsigned)r.below(3);
    if (f == 0) s = fmtImf(c);
    else if (f == 1) { // RFC 850 can only express 1900+yy / 2000+yy: rewrite the year into the expressible window, keep the rest consistent
        Civil c2 = c;
        c2.y = r.chance(1, 6) ? r.range(1970, 1999) : r.chance(1, 2) ? r.range(2000, 2069) : r.range(1987, 1999);
        if (c2.d > daysIn(c2.y, c2.mo)) c2.d = daysIn(c2.y, c2.mo);
        c2.wd = weekdayOf(daysFromCivil(c2.y, c2.mo, c2.d));
        s = fmt850(c2);
    } else s = fmtAsc(c);
    if (k >= 6) s = mutateDate(r, s);
    if (r.chance(1, 100)) s = r.bytes(r.below(100));
    return "P -\n" + s;
}

int drive(Ctx &ctx) {
    if (!ctx.replaying) {
        // every day of 1970..2499 (quick) / 1970..9999 (thorough) at a PRNG second, split over the shards:
        // format + parse-back, and the same instant written in asctime form
        const int64_t lastDay = ctx.thorough ? MaxTime / 86400 : daysFromCivil(2499, 12, 31);
        Rng r(Ctx::mix(ctx.seed, 0x35));
        long n = 0;
        for (int64_t day = 0; day <= lastDay; ++day) {
            const int64_t sec = (int64_t)r.below(86400); // drawn for every day so that all shards agree on the sequence
            if ((int)(day % ctx.nshards) != ctx.shard) continue;
            const int64_t t = day * 86400 + sec;
            std::string w = "F " + std::to_string(t) + "\n";
            ctx.begin(w); run(ctx, w); ++n;
            if (day % 3 == 0) { w = "P -\n" + fmtAsc(civilOf(t)); ctx.begin(w); run(ctx, w); ++n; }
        }
        // every day of the RFC 850 judged windows 1987..1999 and 2000..2069
        for (int64_t day = daysFromCivil(1987, 1, 1) + ctx.shard; day <= daysFromCivil(2069, 12, 31); day += ctx.nshards) {
            const std::string w = "P -\n" + fmt850(civilOf(day * 86400 + (int64_t)((day * 7919) % 86400)));
            ctx.begin(w); run(ctx, w); ++n;
        }
        ctx.count("exhaustive_cases", n);
        ctx.count(ctx.thorough ? "every_day_1970_to_9999" : "every_day_1970_to_2499");
        ctx.exhaustive = true;
    }
    return vh::Loop(ctx, gen, run);
}

} // namespace

VH_REGISTER(C35, drive, "HTTP dates: FormatRfc1123/ParseRfc1123 vs civil-calendar reference and strict three-format recognisers");
