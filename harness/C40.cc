// C40 FTP address replies are parsed strictly (address part of the property).
// Differential oracle: Ftp::ParseIpPort ("h1,h2,h3,h4,p1,p2", PORT/PASV style) and Ftp::ParseProtoIpPort
// ("|proto|addr|port|", EPRT/EPSV style, RFC 2428) against a range-checking reference that works on the
// decimal digit strings themselves (no machine integers, so nothing wraps).
// The directory-listing half of the property (ftpListParseParts) is a static function of FtpGateway.cc and
// cannot be called in-process; it is exercised end to end through the FTP stub (C33).
#include "squid.h"
#include "vh.h"
#include "ftp/Parsing.h"
#include "ip/Address.h"
#include "SquidConfig.h"

#include <arpa/inet.h>
#include <memory>

using vh::Ctx;
using vh::Rng;

namespace {

typedef std::string S;

// ---------------------------------------------------------------- number tokens
struct Num {
    enum Kind { Strict, Lenient, Bad } kind = Bad; // Strict: digits only, no superfluous leading zero. Lenient: blanks/sign/leading zeros around an otherwise decimal number
    bool negative = false;
    S digits;          // without leading zeros ("0" for zero)
    bool le(unsigned long v) const { const S m = std::to_string(v); return digits.size() < m.size() || (digits.size() == m.size() && digits <= m); }
    bool zero() const { return digits == "0"; }
    unsigned long value() const { return strtoul(digits.c_str(), nullptr, 10); } // only when le(65535)
    bool inRange(unsigned long lo, unsigned long hi) const { return kind != Bad && (!negative || zero()) && le(hi) && (lo == 0 || (!zero() && !(le(lo - 1)))); }
};

Num numTok(const S &t) {
    Num n;
    size_t i = 0;
    bool lenient = false;
    while (i < t.size() && isspace((unsigned char)t[i])) { ++i; lenient = true; }
    if (i < t.size() && (t[i] == '+' || t[i] == '-')) { n.negative = t[i] == '-'; ++i; lenient = true; }
    const size_t s = i;
    while (i < t.size() && isdigit((unsigned char)t[i])) ++i;
    if (i == s || i != t.size()) return n; // no digits, or something after them
    size_t z = s;
    while (z + 1 < i && t[z] == '0') { ++z; lenient = true; }
    n.digits = t.substr(z, i - z);
    n.kind = lenient ? Num::Lenient : Num::Strict;
    return n;
}

bool strictV4(const S &t, S &raw) {
    raw.clear();
    size_t i = 0;
    for (int part = 0; part < 4; ++part) {
        const size_t s = i; unsigned v = 0;
        while (i < t.size() && isdigit((unsigned char)t[i]) && i - s < 3) { v = v * 10 + (t[i] - '0'); ++i; }
        if (i == s || v > 255 || (t[s] == '0' && i - s > 1)) return false;
        raw += (char)v;
        if (part < 3) { if (i >= t.size() || t[i] != '.') return false; ++i; }
    }
    return i == t.size();
}
bool numericHost(const S &t) { struct in_addr a; struct in6_addr b; return !t.empty() && (inet_aton(t.c_str(), &a) != 0 || inet_pton(AF_INET6, t.c_str(), &b) == 1); }

struct Ref {
    enum Kind { WellFormed, MustReject, Grey } kind = Grey;
    S why;
    bool v6 = false; S raw; unsigned port = 0; // WellFormed
    S shape;
};

// ---------------------------------------------------------------- PORT / PASV: h1,h2,h3,h4,p1,p2[junk]
Ref refIpPort(const S &b) {
    Ref r;
    std::vector<S> tok; size_t s = 0;
    for (int k = 0; k < 6; ++k) {
        size_t e;
        if (k < 5) { e = b.find(',', s); if (e == S::npos) { r.kind = Ref::MustReject; r.why = "missing-field"; r.shape = "few" + std::to_string(k); return r; } }
        else { // the sixth number ends where the decimal number ends; what follows (") ..." in a 227 reply) is not a component
            e = s;
            while (e < b.size() && isspace((unsigned char)b[e])) ++e;
            if (e < b.size() && (b[e] == '+' || b[e] == '-')) ++e;
            while (e < b.size() && isdigit((unsigned char)b[e])) ++e;
        }
        tok.push_back(b.substr(s, e - s)); s = e + 1;
    }
    bool grey = false; Num n[6];
    for (int k = 0; k < 6; ++k) {
        n[k] = numTok(tok[k]);
        if (n[k].kind == Num::Bad) { r.kind = Ref::MustReject; r.why = k < 4 ? "octet-syntax" : "port-syntax"; r.shape = "bad" + std::to_string(k); return r; }
    }
    for (int k = 0; k < 6; ++k) {
        if (!n[k].inRange(0, 255)) { r.kind = Ref::MustReject; r.why = k < 4 ? "octet-range" : "port-byte-range"; r.shape = S("range") + std::to_string(k) + (n[k].negative ? "neg" : n[k].digits.size() > 9 ? "huge" : "big"); return r; }
        if (n[k].kind == Num::Lenient) grey = true;
    }
    const unsigned port = (unsigned)(n[4].value() * 256 + n[5].value());
    if (port == 0) { r.kind = Ref::MustReject; r.why = "port-zero"; r.shape = "port0"; return r; }
    if (grey) { r.kind = Ref::Grey; r.why = "lenient-number-syntax"; return r; }
    r.kind = Ref::WellFormed; r.port = port;
    for (int k = 0; k < 4; ++k) r.raw += (char)n[k].value();
    r.shape = S("ok|p") + (port < 1024 ? "low" : port == 65535 ? "max" : "hi");
    return r;
}

// ---------------------------------------------------------------- EPRT / EPSV: <d>proto<d>addr<d>port<d>
Ref refProto(const S &b) {
    Ref r;
    if (b.empty()) { r.kind = Ref::MustReject; r.why = "empty"; return r; }
    const char d = b[0];
    const size_t e1 = b.find(d, 1);
    if (e1 == S::npos) { r.kind = Ref::MustReject; r.why = "missing-field"; r.shape = "few1"; return r; }
    const size_t e2 = b.find(d, e1 + 1);
    if (e2 == S::npos) { r.kind = Ref::MustReject; r.why = "missing-field"; r.shape = "few2"; return r; }
    // the port ends at the closing delimiter; RFC 2428 wants <d>, '|' is what everybody sends
    size_t e3 = e2 + 1;
    while (e3 < b.size() && b[e3] != d && b[e3] != '|') ++e3;
    if (e3 >= b.size()) { r.kind = Ref::MustReject; r.why = "missing-final-delimiter"; r.shape = "few3"; return r; }
    bool grey = b[e3] != d;                 // closed by '|' although the delimiter is something else: not judged
    if (e3 + 1 != b.size()) grey = true;    // text after the closing delimiter: not a component, not judged
    const Num proto = numTok(b.substr(1, e1 - 1)), port = numTok(b.substr(e2 + 1, e3 - e2 - 1));
    const S addr = b.substr(e1 + 1, e2 - e1 - 1);
    if (proto.kind == Num::Bad) { r.kind = Ref::MustReject; r.why = "proto-syntax"; r.shape = "badproto"; return r; }
    if (!proto.inRange(1, 2)) { r.kind = Ref::MustReject; r.why = "proto-range"; r.shape = S("protorange") + (proto.digits.size() > 9 ? "huge" : ""); return r; }
    if (port.kind == Num::Bad) { r.kind = Ref::MustReject; r.why = "port-syntax"; r.shape = "badport"; return r; }
    if (port.zero()) { r.kind = Ref::MustReject; r.why = "port-zero"; r.shape = "port0"; return r; }
    if (!port.inRange(1, 65535)) { r.kind = Ref::MustReject; r.why = port.negative ? "port-negative" : "port-high"; r.shape = S("portrange") + (port.digits.size() > 9 ? "huge" : ""); return r; }
    const bool six = proto.value() == 2;
    S raw4; struct in6_addr a6;
    const bool s4 = strictV4(addr, raw4), p6 = addr.find('\0') == S::npos && inet_pton(AF_INET6, addr.c_str(), &a6) == 1;
    if (!s4 && !p6) {
        const size_t pc = addr.find('%');
        struct in6_addr scoped;
        if (numericHost(addr)) grey = true; // inet_aton spellings of IPv4: value arguably in range, spelling not canonical
        else if (pc != S::npos && pc > 0 && inet_pton(AF_INET6, addr.substr(0, pc).c_str(), &scoped) == 1) grey = true; // RFC 4007 zone id after a valid IPv6 literal: getaddrinfo() takes it
        else { r.kind = Ref::MustReject; r.why = "address-syntax"; r.shape = "badaddr"; return r; }
    } else if (six != p6 || (!six) != s4) {
        if (p6 && !six && IN6_IS_ADDR_V4MAPPED(&a6)) grey = true; // IPv4 written as a mapped IPv6 literal under proto 1
        else { r.kind = Ref::MustReject; r.why = "family-mismatch"; r.shape = "fam"; return r; }
    } else if (p6 && IN6_IS_ADDR_V4MAPPED(&a6)) grey = true; // proto 2 with a v4-mapped literal: Squid stores both alike
    if (proto.kind == Num::Lenient || port.kind == Num::Lenient) grey = true;
    if (grey) { r.kind = Ref::Grey; r.why = "lenient-syntax"; return r; }
    r.kind = Ref::WellFormed; r.v6 = six; r.port = (unsigned)port.value();
    r.raw = six ? S((const char *)a6.s6_addr, 16) : raw4;
    r.shape = S("ok|") + (six ? "6" : "4") + "|p" + (r.port < 1024 ? "low" : r.port == 65535 ? "max" : "hi") + (d == '|' ? "" : "|delim");
    return r;
}

S widen(const S &raw) { return raw.size() == 4 ? S(10, '\0') + "\xff\xff" + raw : raw; }
S rawOf(const Ip::Address &a) { struct in6_addr x; a.getInAddr(x); return S((const char *)x.s6_addr, 16); }

// case: "<fn> <sanity> <force> <pre>\n<buf>"   fn: I = ParseIpPort, E = ParseProtoIpPort
void run(Ctx &ctx, const S &w) {
    const auto nl = w.find('\n');
    char fn; int sanity, force, pre;
    if (nl == S::npos || sscanf(w.substr(0, nl).c_str(), "%c %d %d %d", &fn, &sanity, &force, &pre) != 4 || (fn != 'I' && fn != 'E')) { ctx.grey(); return; }
    const S b = S(w.substr(nl + 1).c_str()); // the parsers take C strings
    if (fn == 'E' && b.empty()) { ctx.grey(); return; } // the only caller refuses empty parameters before parsing (and the parser would look beyond the terminator)
    std::unique_ptr<char[]> buf(new char[b.size() + 1]); // exact size: overreads are visible to ASan
    memcpy(buf.get(), b.c_str(), b.size() + 1);
    const char *const ForceIp = "10.9.8.7";
    // FtpServer hands in a fresh Ip::Address; FtpRelay hands ParseIpPort a long-lived one (MasterState::clientDataAddr)
    // that holds the previous PASV result. ParseProtoIpPort's only caller uses a fresh one.
    const bool reuse = fn == 'I' && pre && !force;
    auto call = [&](bool reused, Ip::Address &addr) {
        if (reused) { addr = "192.0.2.77"; addr.port(2121); }
        const auto saved = Config.Ftp.sanitycheck;
        Config.Ftp.sanitycheck = sanity;
        const bool ok = fn == 'I' ? Ftp::ParseIpPort(buf.get(), force ? ForceIp : nullptr, addr) : Ftp::ParseProtoIpPort(buf.get(), addr);
        Config.Ftp.sanitycheck = saved;
        return ok;
    };
    Ip::Address addr, addr2;
    const bool ok = call(false, addr);
    const bool ok2 = reuse ? call(true, addr2) : ok;
    ctx.ubsanGate({"ftp/Parsing"});
    const Ref ref = fn == 'I' ? refIpPort(b) : refProto(b);
    const S id = fn == 'I' ? "ipport:" : "protoipport:";
    char got[80], got2[80]; addr.toUrl(got, sizeof got); addr2.toUrl(got2, sizeof got2);
    const S where = S(fn == 'I' ? "ParseIpPort(" : "ParseProtoIpPort(") + vh::show(b, 120) + (fn == 'I' && force ? ", forceIp" : "") + ")" + (sanity ? " [ftp_sanitycheck on]" : "") + ": ";
    const S where2 = where + "into an address object that holds an earlier result (192.0.2.77:2121): ";
    if (ref.kind == Ref::Grey) { ctx.count("grey:" + ref.why); ctx.grey(); return; }
    if (ref.kind == Ref::MustReject && fn == 'I' && force && ref.why.compare(0, 5, "octet") == 0) {
        // with ftp_sanitycheck the announced host is replaced by the control connection's address on purpose (documented): the octets are not used
        ctx.count("grey:octets-ignored-under-forceIp"); ctx.grey(); return;
    }
    const S feat = S(1, fn) + std::to_string(sanity) + std::to_string(force) + (reuse ? "r" : "f") + "|" + ref.shape + "|" + ref.why + "|" + (ok ? "A" : "R") + (reuse ? (ok2 ? "A" : "R") : "");
    ctx.feature(feat);
    if (ref.kind == Ref::MustReject) {
        if (ok) ctx.violation(id + "accepted-out-of-range:" + ref.why, where + "accepted as " + got + " although a component is missing, malformed or out of range (" + ref.why + ")");
        else if (ok2) ctx.violation(id + "accepted-out-of-range:" + ref.why + ":reused-address", where2 + "accepted as " + got2 + " although a component is missing, malformed or out of range (" + ref.why + ")");
        return;
    }
    // all components canonical and in range
    const bool anyAddr = ref.raw.find_first_not_of('\0') == S::npos;
    const bool documented = (anyAddr && !(fn == 'I' && force)) || (sanity && ref.port < 1024);
    if (!ok) {
        if (documented) ctx.count("rejected-by-documented-policy");
        else if (fn == 'E' && b[0] != '|') ctx.count("eprt-delimiter-other-than-bar-rejected"); // only '|' closes the port in Squid; allowed by the statement (nothing is yielded)
        else ctx.violation(id + "rejected-canonical", where + "canonical in-range address string rejected");
    } else {
        const S expectRaw = fn == 'I' && force ? widen(S("\x0a\x09\x08\x07", 4)) : widen(ref.raw);
        if (rawOf(addr) != expectRaw) ctx.violation(id + "wrong-address", where + "yielded " + got + ", address bytes " + vh::hexEncode(rawOf(addr)) + " expected " + vh::hexEncode(expectRaw));
        else if (addr.port() != ref.port) ctx.violation(id + "wrong-port", where + "yielded port " + std::to_string(addr.port()) + " expected " + std::to_string(ref.port));
    }
    if (reuse) {
        if (!ok2) { if (ok) ctx.violation(id + "rejected-canonical:reused-address", where2 + "rejected although the same string is accepted into a fresh address object"); }
        else if (rawOf(addr2) != widen(ref.raw)) ctx.violation(id + "wrong-address:reused-address", where2 + "yielded " + got2 + " expected address bytes " + vh::hexEncode(widen(ref.raw)));
        else if (addr2.port() != ref.port) ctx.violation(id + "wrong-port:reused-address", where2 + "yielded port " + std::to_string(addr2.port()) + " expected " + std::to_string(ref.port));
    }
}

// ---------------------------------------------------------------- generators
S genNum(Rng &r, unsigned long hi) {
    switch (r.below(14)) {
    case 0: return std::to_string(hi);
    case 1: return std::to_string(hi + 1);
    case 2: return "0";
    case 3: return "1";
    case 4: return "-1";
    case 5: return r.pick({"256", "257", "65536", "65537", "70000", "99999", "100000", "2147483647", "2147483648", "4294967295", "4294967296", "4294967297", "4294967376", "4295032832", "9223372036854775807", "9223372036854775808", "18446744073709551616", "18446744073709551617", "99999999999999999999999"});
    case 6: return r.pick({"", " ", "x", "1x", "x1", "0x10", "1.5", "1e2", "+1", " 1", "01", "007", "-0", "--1", "1 ", "\t2", "1-", "٣"});
    case 7: return std::to_string((unsigned long)(hi + 1) * r.range(1, 70000) + r.below(hi + 1)); // congruent to an in-range value modulo hi+1
    case 8: return "-" + std::to_string(r.below(70000));
    default: return std::to_string(r.below(hi + 1));
    }
}
S okNum(Rng &r, unsigned long lo, unsigned long hi) { return r.chance(1, 4) ? std::to_string(r.coin() ? lo : hi) : std::to_string(lo + r.below(hi - lo + 1)); }

S genV4(Rng &r) { S s; for (int i = 0; i < 4; ++i) s += okNum(r, i == 0 ? 1 : 0, 255) + (i < 3 ? "." : ""); return s; }
S genV6(Rng &r) {
    struct in6_addr a; char b[64];
    for (auto &x : a.s6_addr) x = r.chance(1, 3) ? 0 : (unsigned char)r.next();
    if (r.chance(1, 4)) memset(a.s6_addr + r.below(8), 0, 8);
    a.s6_addr[0] = 0x20; // global unicast, never v4-mapped
    return inet_ntop(AF_INET6, &a, b, sizeof b) ? b : "2001:db8::1";
}

S gen(Rng &r) {
    const int sanity = r.chance(1, 3), pre = r.chance(1, 3);
    if (r.coin()) {
        const int force = r.chance(1, 4);
        S f[6]; for (int k = 0; k < 6; ++k) f[k] = okNum(r, k == 0 ? 1 : 0, 255);
        if (r.chance(1, 8)) f[4] = "0";
        switch (r.below(6)) {
        case 0: break;
        case 1: case 2: f[r.below(6)] = genNum(r, 255); break;
        case 3: f[4 + r.below(2)] = genNum(r, 255); break;
        case 4: f[4] = "0"; f[5] = r.coin() ? "0" : genNum(r, 255); break;
        default: f[r.below(6)] = genNum(r, 255); f[r.below(6)] = genNum(r, 255); break;
        }
        S b;
        const int nf = r.chance(1, 15) ? (int)r.range(0, 7) : 6;
        for (int k = 0; k < nf; ++k) b += (k ? "," : "") + (k < 6 ? f[k] : std::to_string(r.below(256)));
        if (r.chance(1, 5)) b += r.pick({")", ").", ") ok\r\n", " ", ",", ",7", "x", "\r\n", ".5", "-"});
        if (!b.empty() && r.chance(1, 30)) b[r.below(b.size())] = r.pick({",", ".", " ", "|", ";"})[0];
        for (auto &c : b) if (!c) c = '0';
        return "I " + std::to_string(sanity) + " " + std::to_string(force) + " " + std::to_string(pre) + "\n" + b;
    }
    const char d = r.chance(1, 8) ? r.pick({"!", "#", ",", "/", "~", "1", " "})[0] : '|';
    bool six = r.coin();
    S proto = six ? "2" : "1", addr = six ? genV6(r) : genV4(r), port = okNum(r, 1, 65535);
    switch (r.below(8)) {
    case 0: case 1: break;
    case 2: case 3: port = genNum(r, 65535); break;
    case 4: proto = r.chance(1, 2) ? genNum(r, 2) : r.pick({"0", "3", "12", "21", "4294967297", "4294967298", "-1", "", "1 ", "02", "+2"}); break;
    case 5: addr = r.pick({"", "0.0.0.0", "::", "256.1.1.1", "1.2.3.256", "999.1.1.1", "1.2.3", "1.2.3.4.5", "01.2.3.4", "16909060", "0x7f.1", "example.com", "localhost", "1.2.3.4 ", " 1.2.3.4", "::ffff:1.2.3.4", "::1", "fe80::1%lo", "12345::1", "1:2:3:4:5:6:7:8:9", ":::", "[::1]", "1.2.3.4|", "aaaaaaaaaaaaaaaaaaaaaaaaaaaaaaaaaaaaaaaaaaaaaaaaaaaaaaaaaaaaaaaaaaaaaaaaaaaaaaaaaaaaaaaaaaaaaaaaaaaaaaaaa"}); break;
    case 6: addr = six ? genV4(r) : genV6(r); break; // family mismatch
    default: port = genNum(r, 65535); if (r.coin()) proto = genNum(r, 2); break;
    }
    S b = S(1, d) + proto + d + addr + d + port + d;
    switch (r.below(16)) {
    case 0: b.pop_back(); break;                       // no closing delimiter
    case 1: b.back() = '|'; break;
    case 2: b += r.pick({"x", "|", "\r\n", " "}); break;
    case 3: { const size_t p = b.find(d, 1 + r.below(b.size())); if (p != S::npos) b.erase(p, 1); break; }
    case 4: b.insert(r.below(b.size() + 1), 1, d); break;
    default: break;
    }
    if (r.chance(1, 60)) b = b.substr(0, r.below(b.size() + 1));
    if (b.empty()) b = "|";
    for (auto &c : b) if (!c) c = '0';
    return "E " + std::to_string(sanity) + " 0 0\n" + b;
}

int drive(Ctx &ctx) {
    if (!ctx.replaying && ctx.shard == 0) {
        // boundary sweep: every port around each limit, in both syntaxes, fresh and reused address objects
        long n = 0;
        auto go = [&](const S &w) { ctx.begin(w); run(ctx, w); ++n; };
        for (int pre = 0; pre < 2; ++pre) {
            for (const char *p : {"0", "1", "1023", "1024", "4464", "65534", "65535", "65536", "65537", "70000", "131071", "4294967295", "4294967296", "4294967297", "4294967376", "-1", "", "80abc"}) {
                go("E " + std::to_string(pre) + " 0 0" + "\n|1|10.1.2.3|" + p + "|");
                go("E " + std::to_string(pre) + " 0 0" + "\n|2|2001:db8::5|" + p + "|");
            }
            for (int p1 = -1; p1 <= 257; ++p1) for (int p2 : {-1, 0, 1, 255, 256}) {
                if (p1 > 2 && p1 < 254) continue;
                go("I 0 0 " + std::to_string(pre) + "\n10,1,2,3," + std::to_string(p1) + "," + std::to_string(p2));
            }
            for (const char *h : {"0", "255", "256", "-1", "999", "4294967297", "1000"}) for (int k = 0; k < 4; ++k) {
                S f[4] = {"10", "1", "2", "3"}; f[k] = h;
                go("I 0 0 " + std::to_string(pre) + "\n" + f[0] + "," + f[1] + "," + f[2] + "," + f[3] + ",4,5");
            }
        }
        ctx.count("boundary_cases_enumerated", n);
    }
    return vh::Loop(ctx, gen, run);
}

} // namespace

VH_REGISTER(C40, drive, "FTP PORT/PASV and EPRT/EPSV address parsers vs digit-string range-checking reference");
